#!/usr/bin/env python3
"""Regenerates MANIFEST.json from checks.json (claimed properties) + the static texts below."""
import json, os, subprocess
ROOT = os.path.dirname(os.path.dirname(os.path.abspath(__file__)))
cfg = json.load(open(os.path.join(ROOT, "checks.json")))
props = [json.loads(l) for l in open(os.path.join(ROOT, "properties.jsonl"))]
hooks_commits = []
hc = os.path.join(ROOT, "hook_commits.txt")
if os.path.exists(hc):
    hooks_commits = [l.split()[0] for l in open(hc) if l.strip()]
checks = []
na = []
for p in props:
    pid = p["id"]
    c = cfg["checks"].get(pid)
    if c is None or c.get("disabled"):
        na.append({"property_id": pid, "reason": (c or {}).get("na_reason", "check not built yet in this session (work in progress; see DESIGN.md section 4 for the planned generator and oracle)")})
        continue
    checks.append({
        "property_id": pid,
        "quick_cmd": "./check %s quick" % pid,
        "thorough_cmd": "./check %s thorough" % pid,
        "evidence_file": "evidence/%s.json" % pid,
        "replay_cmd_template": "./check %s --replay {path}" % pid,
        "engine": "rapid-harness",
        "level_claimed": {"category": c.get("level", "exploration"), "text": c["level_text"], "design_ref": "DESIGN.md section 4, " + pid},
        "level_note": c["level_note"],
        "technique": c["technique"],
    })
m = {
    "version": 1,
    "setup_cmd": "./check --build-all",
    "hooks": {
        "guard": "verif",
        "enable": "go test -c -tags verif (the driver builds every harness package with the tag; /repo is pulled in through the replace directive of harness/go.mod)",
        "baseline_off_cmd": "cd /repo && go build ./... && go test -vet=off -count=1 -timeout 25m ./...",
        "source_commits": hooks_commits,
        "add_only": True,
    },
    "engines": [{"name": "rapid-harness", "path": "harness", "serves_properties": [c["property_id"] for c in checks],
                 "kind_free_text": "Go module with one test binary per property: pgregory.net/rapid v1.3.0 generators + explicit oracles (reference models, round trips, differential and metamorphic relations, history invariants), JSON replay files, native go fuzz targets in the thorough tier of the byte-level properties; driven by ./check (python3)"}],
    "checks": checks,
    "not_applicable": na,
    "notes": "All checks are property-based tests / fuzzers with explicit oracles; see DESIGN.md. known_findings.json lists genuine defects that were repaired (fixed:) or recorded (known).",
}
json.dump(m, open(os.path.join(ROOT, "MANIFEST.json"), "w"), indent=1)
print("claimed:", [c["property_id"] for c in checks])
