#!/usr/bin/env python3
"""tools/seed_prompt6.py <ID> <first-k> <n> — wave-6 sub-agent prompt: property text, the code sites earlier waves already used, a wave theme. Nothing else from /verif."""
import json, sys, glob, re, collections
pid = sys.argv[1]; k0 = int(sys.argv[2]); n = int(sys.argv[3])
p = [json.loads(l) for l in open('/verif/properties.jsonl') if json.loads(l)['id'] == pid][0]
wt = "/tmp/seedwt-%s" % pid
out = "/tmp/seedout-%s" % pid
used = collections.Counter()
for f in glob.glob('/verif/seeded/%s-*/patch.diff' % pid):
    cur = None
    for l in open(f):
        m = re.match(r'\+\+\+ b/(\S+)', l)
        if m: cur = m.group(1)
        m = re.match(r'@@.*@@ ?(.*)', l)
        if m and cur: used[(cur, m.group(1).strip()[:70])] += 1
usedtxt = '\n'.join('  - %s : %s' % k for k in sorted(used))
ks = ', '.join(str(k0 + i) for i in range(n))
print(f"""You are helping to evaluate a verification framework for the Go project wrgl/wrgl (Git-like version control for CSV tables). Your job: produce {n} independent *realistic source changes* to wrgl that each BREAK the semantic property below while still compiling and still passing the project's existing test suite.

Property {pid}: {p['title']}
Statement: {p['statement']}
Quantified over: {p['quantifier']['text']}
Code the property is anchored in: {', '.join(p['anchors']['files'])}
Mechanisms meant to make it hold: {'; '.join(m['name'] + ' (' + m['where'] + ')' for m in p['anchors']['mechanism'])}

Your workspace: a scratch git worktree of the repository at {wt} (already created for you, at the current HEAD). Work ONLY inside {wt} and {out}; never touch /repo or /verif (do not read /verif either). Every shell command must start with: export GOFLAGS=-mod=mod GOPROXY=off GOSUMDB=off GOTOOLCHAIN=local   (there is no network).

What makes a good change: it is the kind of slip a maintainer could plausibly make (an off-by-one, a wrong comparison, a dropped check, a reordered write, a missing lock, two sites that each look fine alone), it is small (a few lines), and it needs something SPECIFIC to manifest — a particular interleaving, a crash or fault at a particular point, a multi-step sequence of operations, an unusual input (size at a boundary, duplicate/empty keys, odd bytes), or two cooperating sites — rather than failing on the very first ordinary use. It must not be caught by the existing tests.

Earlier rounds already produced changes at the following sites (file : enclosing declaration). Do NOT reuse these sites or their failure mechanisms; look elsewhere:
{usedtxt}

Direction for this round: prefer (a) code that is reached only through a rarely used option, flag, parameter value or configuration (e.g. non-default delimiters, --depth, --no-ff, --set-upstream, custom worker counts, table-level vs commit-level transfer, badger vs in-memory/file/sqlite stores), (b) two representations of the same fact that must stay in agreement (index vs blocks, reflog vs ref, table header vs block list, in-memory cache/buffer reuse vs what was written, config vs refs), (c) state carried across calls inside one long-lived object (reused buffers, pooled encoders/decoders, sessions, queues, iterators that are Reset/Seek-ed), and (d) the second or later element of a batch (second ref, second packfile, second conflict, second spill file, second transaction branch) being treated differently from the first. A property can also be broken from a helper package the anchored code calls; follow the calls.

For each change k in {{{ks}}} deliver, under {out}/k/:
  1. patch.diff  — `git diff` of the change against the worktree HEAD (source change only, no test files).
  2. demo/       — a demonstration: ONE Go test file (say where it must be placed inside the repo, e.g. pkg/sorter/zz_demo_test.go) that FAILS with the change applied and PASSES without it. It should show the property being violated through observable behaviour (wrong rows, wrong result, panic, lost object...), not just that the code differs.
  3. meta.json   — {{"property": "{pid}", "summary": "...what the change does...", "needs": "...what specific input / sequence / fault / interleaving it needs to manifest...", "demo_placement": "...path (file) where the demo file goes...", "demo_cmd": "...command run from the repo root, e.g. go test -vet=off -count=1 -run TestDemoX ./pkg/y/ ...", "existing_tests_cmd": "...what you ran to confirm the existing suite still passes..."}}

You must verify all of this yourself before finishing: (a) with the change applied, `go build ./...` succeeds and `go test -vet=off -count=1 ./...` from the repo root still passes (the whole suite takes about a minute; pkg/auth/fs TestAuthnStore is flaky under load — retry once if only that fails); (b) the demo fails with the change; (c) after `git checkout -- .` (change reverted, demo still in place) the demo passes. Leave the worktree clean (no change applied, demo files removed) when you finish. Make the {n} changes genuinely different from one another (different site or different failure mechanism). You have roughly 25 minutes; deliver what you have confirmed. Report briefly what you produced.""")
