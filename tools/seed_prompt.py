#!/usr/bin/env python3
"""tools/seed_prompt.py <ID> <n> — prints the sub-agent prompt for seeding n breaking changes (nothing from /verif besides the property text)."""
import json, sys
pid = sys.argv[1]; n = int(sys.argv[2]) if len(sys.argv) > 2 else 2
p = [json.loads(l) for l in open('/verif/properties.jsonl') if json.loads(l)['id'] == pid][0]
wt = "/tmp/seedwt-%s" % pid
out = "/tmp/seedout-%s" % pid
print(f"""You are helping to evaluate a verification framework for the Go project wrgl/wrgl (Git-like version control for CSV tables). Your job: produce {n} independent *realistic source changes* to wrgl that each BREAK the semantic property below while still compiling and still passing the project's existing test suite.

Property {pid}: {p['title']}
Statement: {p['statement']}
Quantified over: {p['quantifier']['text']}
Code the property is anchored in: {', '.join(p['anchors']['files'])}
Mechanisms meant to make it hold: {'; '.join(m['name'] + ' (' + m['where'] + ')' for m in p['anchors']['mechanism'])}

Your workspace: a scratch git worktree of the repository at {wt} (already created for you, at the current HEAD). Work ONLY inside {wt} and {out}; never touch /repo or /verif (do not read /verif either). Every shell command must start with: export GOFLAGS=-mod=mod GOPROXY=off GOSUMDB=off GOTOOLCHAIN=local   (there is no network).

What makes a good change: it is the kind of slip a maintainer could plausibly make (an off-by-one, a wrong comparison, a dropped check, a reordered write, a missing lock, two sites that each look fine alone), it is small (a few lines), and it needs something SPECIFIC to manifest — a particular interleaving, a crash or fault at a particular point, a multi-step sequence of operations, an unusual input (size at a boundary, duplicate/empty keys, odd bytes), or two cooperating sites — rather than failing on the very first ordinary use. It must not be caught by the existing tests.

For each change k = 1..{n} deliver, under {out}/k/:
  1. patch.diff  — `git diff` of the change against the worktree HEAD (source change only, no test files).
  2. demo/       — a demonstration: a Go test file (say where it must be placed inside the repo, e.g. pkg/sorter/zz_demo_test.go) or a small Go program, that FAILS with the change applied and PASSES without it. It should show the property being violated through observable behaviour (wrong rows, wrong result, panic, lost object...), not just that the code differs.
  3. meta.json   — {{"property": "{pid}", "summary": "...what the change does...", "needs": "...what specific input / sequence / fault / interleaving it needs to manifest...", "demo_placement": "...path where the demo file goes...", "demo_cmd": "...command run from the repo root...", "existing_tests_cmd": "...what you ran to confirm the existing suite still passes..."}}

You must verify all of this yourself before finishing: (a) with the change applied, `go build ./...` succeeds and the existing tests of the affected packages AND `go test -vet=off -count=1 ./...` from the repo root still pass (the whole suite takes about a minute); (b) the demo fails with the change; (c) after `git checkout -- .` (change reverted, demo still in place) the demo passes. Leave the worktree clean (no change applied, demo files removed) when you finish. Make the {n} changes genuinely different from one another (different site or different failure mechanism). Report briefly what you produced.""")
