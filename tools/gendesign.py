#!/usr/bin/env python3
"""Regenerates the auto-generated tables of DESIGN.md (between AUTO markers) from known_findings.json,
seeded/*/meta.json and checks.json."""
import json, os, re, glob
ROOT = os.path.dirname(os.path.dirname(os.path.abspath(__file__)))
k = json.load(open(os.path.join(ROOT, "known_findings.json")))
cfg = json.load(open(os.path.join(ROOT, "checks.json")))

def table_fixed():
    rows = ["| # | properties | `fix:` commit in /repo | what failed on the pinned tree | regression replay |", "|---|---|---|---|---|"]
    for i, f in enumerate(k["fixed"], 1):
        rows.append("| %d | %s | `%s` | %s | %s |" % (i, ", ".join(f["property"]), f["commit"], f["what"].replace("|", "\\|"), ("`%s`" % f["replay"]) if f.get("replay") else "found by the generated tier (see property section)"))
    return "\n".join(rows)

def table_known():
    rows = ["| id | property | what fails | why it is recorded rather than repaired | witness |", "|---|---|---|---|---|"]
    for f in k["known"]:
        rows.append("| %s | %s | %s | %s | %s |" % (f["id"], f["property"], f["what"], f.get("why_not_fixed", ""), ", ".join("`%s`" % w for w in f.get("witnesses", []))))
    return "\n".join(rows)

def table_seeded():
    rows = ["| seeded change | property | what the change does | what it needs to manifest | our quick checks |", "|---|---|---|---|---|"]
    for d in sorted(glob.glob(os.path.join(ROOT, "seeded", "*"))):
        mp = os.path.join(d, "meta.json")
        if not os.path.exists(mp):
            continue
        m = json.load(open(mp))
        res = m.get("our_checks", "")
        res = re.sub(r"replay=\S+", "", res)
        res = re.sub(r"\s+", " ", res).strip()
        rows.append("| `seeded/%s` | %s | %s | %s | %s |" % (os.path.basename(d), m.get("property", ""), m.get("summary", "").replace("|", "\\|").replace("\n", " ")[:420], m.get("needs", "").replace("|", "\\|").replace("\n", " ")[:300], res[:260]))
    return "\n".join(rows)

def table_checks():
    rows = ["| property | test binary | generated properties (quick cases x shards / thorough cases x shards) | native fuzz (thorough) | level |", "|---|---|---|---|---|"]
    for pid in sorted(cfg["checks"]):
        c = cfg["checks"][pid]
        ps = []
        for name, pc in c["props"].items():
            q, t = pc["quick"], pc.get("thorough", pc["quick"])
            if pc.get("plain"):
                ps.append("%s (exhaustive enumeration)" % name)
            else:
                ps.append("%s %dx%d / %dx%d" % (name, q["checks"], q.get("shards", 1), t["checks"], t.get("shards", 1)))
        fz = ", ".join("%s %ds" % (f["target"], f["time_s"]) for f in c.get("fuzz", [])) or "-"
        rows.append("| %s | harness/%s%s | %s | %s | %s |" % (pid, c["pkg"], " (-race)" if c.get("race") else "", "; ".join(ps), fz, c.get("level", "exploration")))
    return "\n".join(rows)

gens = {"fixed": table_fixed, "known": table_known, "seeded": table_seeded, "checks": table_checks}
p = os.path.join(ROOT, "DESIGN.md")
s = open(p).read()
for name, fn in gens.items():
    b, e = "<!-- BEGIN AUTO:%s -->" % name, "<!-- END AUTO:%s -->" % name
    if b in s and e in s:
        i, j = s.index(b) + len(b), s.index(e)
        s = s[:i] + "\n" + fn() + "\n" + s[j:]
open(p, "w").write(s)
print("DESIGN.md tables regenerated")
