#!/usr/bin/env python3
"""tools/addfixed.py <props comma-sep> <repo commit> <what failed> [replay file] — record a repaired defect."""
import json, sys
p = '/verif/known_findings.json'
k = json.load(open(p))
props, commit, what = sys.argv[1], sys.argv[2], sys.argv[3]
e = {"line": "fixed: property=%s %s %s" % (props, commit, what), "property": props.split(","), "commit": commit, "what": what}
if len(sys.argv) > 4:
    e["replay"] = sys.argv[4]
k["fixed"].append(e)
json.dump(k, open(p, 'w'), indent=1)
print(e["line"])
