// C20 — the on-disk hash set answers membership exactly like a set.
package c20

import (
	"bytes"
	"encoding/binary"
	"errors"
	"fmt"
	"os"
	"path/filepath"
	"sort"
	"testing"

	"github.com/wrgl/wrgl/pkg/index"
	"github.com/wrgl/wrgl/pkg/misc"
	"pgregory.net/rapid"

	"verifharness/internal/evid"
)

func TestMain(m *testing.M) { evid.Main("C20", m) }

const space = 48

var firsts = []byte{0x00, 0x01, 0x7f, 0x80, 0xfe, 0xff}

// hashOf maps a small index to a 16-byte value; values share first bytes (incl. 0x00 / 0xff) and
// differ in the middle or only in the last byte.
func hashOf(i int) []byte {
	h := make([]byte, 16)
	h[0] = firsts[i%6]
	h[8] = byte((i / 6) % 2)
	h[15] = byte(i / 12)
	for k := 1; k < 8; k++ {
		h[k] = 0x55
	}
	return h
}

type Op struct {
	Kind string `json:"k"` // add | flush | reopen | reopen_noflush | has_fault (B-th read of Has(H) fails)
	H    int    `json:"h,omitempty"`
	B    uint32 `json:"b,omitempty"` // batch size after a reopen
}

type Case struct {
	Backing string `json:"backing"` // file | buffer
	Batch   uint32 `json:"batch"`
	Ops     []Op   `json:"ops"`
}

var sub = evid.Register("hashset", run)

func genCase(t *rapid.T) Case {
	c := Case{
		Backing: rapid.SampledFrom([]string{"file", "file", "file", "buffer"}).Draw(t, "backing"),
		Batch:   rapid.SampledFrom([]uint32{0, 1, 2, 3, 4, 5, 8}).Draw(t, "batch"),
	}
	maxOps := evid.Scale(40, 120)
	n := rapid.IntRange(1, maxOps).Draw(t, "nops")
	for i := 0; i < n; i++ {
		k := rapid.IntRange(0, 99).Draw(t, "kind")
		switch {
		case k < 8:
			c.Ops = append(c.Ops, Op{Kind: "has_fault", H: rapid.IntRange(0, space-1).Draw(t, "h"), B: uint32(rapid.IntRange(1, 6).Draw(t, "failIn"))})
		case k < 70:
			c.Ops = append(c.Ops, Op{Kind: "add", H: rapid.IntRange(0, space-1).Draw(t, "h")})
		case k < 88:
			c.Ops = append(c.Ops, Op{Kind: "flush"})
		case k < 96:
			c.Ops = append(c.Ops, Op{Kind: "reopen", B: rapid.SampledFrom([]uint32{0, 1, 2, 3, 8}).Draw(t, "b")})
		default:
			c.Ops = append(c.Ops, Op{Kind: "reopen_noflush", B: rapid.SampledFrom([]uint32{0, 1, 2, 3, 8}).Draw(t, "b")})
		}
	}
	return c
}

func TestPropHashSet(t *testing.T) {
	rapid.Check(t, func(t *rapid.T) { sub.Check(t, genCase(t)) })
}

func TestReplay(t *testing.T) { evid.Replay(t) }

type backing struct {
	kind string
	path string
	f    *os.File
	buf  *misc.Buffer
	// read-fault injection
	failIn int
	hit    bool
}

func (b *backing) open() (index.ReadWriteSeekCloser, error) {
	if b.kind == "file" {
		f, err := os.OpenFile(b.path, os.O_RDWR|os.O_CREATE, 0o644)
		b.f = f
		if err != nil {
			return nil, err
		}
		return &faultRW{ReadWriteSeekCloser: f, b: b}, nil
	}
	if b.buf == nil {
		b.buf = misc.NewBuffer(nil)
	}
	return &faultRW{ReadWriteSeekCloser: b.buf, b: b}, nil
}

// faultRW fails the failIn-th read from now (once) with an error that is not io.EOF.
type faultRW struct {
	index.ReadWriteSeekCloser
	b *backing
}

var errInjectedRead = errors.New("injected read error")

func (f *faultRW) Read(p []byte) (int, error) {
	if f.b.failIn > 0 {
		f.b.failIn--
		if f.b.failIn == 0 {
			f.b.hit = true
			return 0, errInjectedRead
		}
	}
	return f.ReadWriteSeekCloser.Read(p)
}

func (b *backing) raw() ([]byte, error) {
	if b.kind == "file" {
		return os.ReadFile(b.path)
	}
	return b.buf.Bytes(), nil
}

func run(c Case) (o evid.Outcome, err error) {
	dir, err := os.MkdirTemp(evid.OutDir(), "hs-*")
	if err != nil {
		return o, fmt.Errorf("HARNESS: %v", err)
	}
	defer os.RemoveAll(dir)
	bk := &backing{kind: c.Backing, path: filepath.Join(dir, "set")}
	rw, err := bk.open()
	if err != nil {
		return o, fmt.Errorf("HARNESS: %v", err)
	}
	hs, err := index.NewHashSet(rw, c.Batch)
	if err != nil {
		return o, fmt.Errorf("NewHashSet: %v", err)
	}
	batch := c.Batch
	if batch == 0 {
		batch = 1024
	}
	flushed := map[int]bool{}
	pending := map[int]bool{}
	pendingN := 0
	flushes := 0
	between, repeat := false, false

	commit := func() {
		for h := range pending {
			flushed[h] = true
		}
		pending = map[int]bool{}
		pendingN = 0
		flushes++
	}
	verify := func(step int, what string) error {
		for i := 0; i < space; i++ {
			if pending[i] {
				continue // "once flushed": an unflushed addition is unconstrained
			}
			got, err := hs.Has(hashOf(i))
			if err != nil {
				return fmt.Errorf("step %d (%s): Has(%x): %v", step, what, hashOf(i), err)
			}
			if got != flushed[i] {
				return fmt.Errorf("step %d (%s): Has(%x) = %v, model says %v", step, what, hashOf(i), got, flushed[i])
			}
		}
		return nil
	}
	verifyRaw := func(step int, what string) error {
		raw, err := bk.raw()
		if err != nil {
			return fmt.Errorf("HARNESS: %v", err)
		}
		if len(flushed) == 0 && len(raw) < 1024 {
			return nil
		}
		if len(raw) < 1024 {
			return fmt.Errorf("step %d (%s): file has %d bytes but %d entries were flushed", step, what, len(raw), len(flushed))
		}
		var fan [256]uint32
		for k := range fan {
			fan[k] = binary.BigEndian.Uint32(raw[4*k:])
		}
		n := int(fan[255])
		if n != hs.Len() {
			return fmt.Errorf("step %d (%s): fanout[255]=%d but Len()=%d", step, what, n, hs.Len())
		}
		if len(raw) < 1024+16*n {
			return fmt.Errorf("step %d (%s): file too short for %d entries", step, what, n)
		}
		var cnt [256]uint32
		seen := map[string]bool{}
		var prev []byte
		for i := 0; i < n; i++ {
			e := raw[1024+16*i : 1024+16*i+16]
			if prev != nil && bytes.Compare(prev, e) > 0 {
				return fmt.Errorf("step %d (%s): entries %d,%d out of order: %x > %x", step, what, i-1, i, prev, e)
			}
			prev = e
			cnt[e[0]]++
			seen[string(e)] = true
		}
		var acc uint32
		for k := 0; k < 256; k++ {
			acc += cnt[k]
			if fan[k] != acc {
				return fmt.Errorf("step %d (%s): fanout[%d]=%d, entries with first byte <= %d: %d", step, what, k, fan[k], k, acc)
			}
		}
		for h := range flushed {
			if !seen[string(hashOf(h))] {
				return fmt.Errorf("step %d (%s): flushed %x not stored", step, what, hashOf(h))
			}
		}
		if len(seen) != len(flushed) {
			return fmt.Errorf("step %d (%s): %d distinct stored entries, model has %d", step, what, len(seen), len(flushed))
		}
		return nil
	}
	strictlyBetween := func(h int) bool {
		// does an insertion of h land strictly between two flushed entries sharing its first byte?
		var lo, hi bool
		hv := hashOf(h)
		for f := range flushed {
			fv := hashOf(f)
			if fv[0] != hv[0] {
				continue
			}
			if bytes.Compare(fv, hv) < 0 {
				lo = true
			} else if bytes.Compare(fv, hv) > 0 {
				hi = true
			}
		}
		return lo && hi
	}

	for step, op := range c.Ops {
		switch op.Kind {
		case "add":
			if pending[op.H] {
				repeat = true
			}
			if !flushed[op.H] && strictlyBetween(op.H) {
				between = true
			}
			if err := hs.Add(hashOf(op.H)); err != nil {
				return o, fmt.Errorf("step %d: Add(%x): %v", step, hashOf(op.H), err)
			}
			if !flushed[op.H] {
				pending[op.H] = true
				pendingN++
				if pendingN >= int(batch) {
					commit() // Add flushes by itself when the batch is full
					if err := verifyRaw(step, "auto-flush"); err != nil {
						return o, err
					}
				}
			}
		case "has_fault":
			// one read of the lookup fails: an error, or still the right answer - never a wrong one
			bk.failIn, bk.hit = int(op.B), false
			var got bool
			var herr error
			func() {
				// insertIndex reports a read error from inside sort.Search by panicking with it;
				// that is a (rude) report, not a wrong answer, and C20 says nothing about I/O errors
				defer func() {
					if p := recover(); p != nil {
						if e, ok := p.(error); ok && errors.Is(e, errInjectedRead) {
							herr = e
							evid.Note("a read error during a lookup surfaces as a panic (insertIndex), not as an error value")
							return
						}
						panic(p)
					}
				}()
				got, herr = hs.Has(hashOf(op.H))
			}()
			hit := bk.hit
			bk.failIn, bk.hit = 0, false
			want := flushed[op.H]
			if herr == nil && got != want && !pending[op.H] { // membership is promised once flushed

				note := ""
				if hit {
					note = fmt.Sprintf(" (read #%d of the lookup failed and the failure was not reported)", op.B)
				}
				return o, fmt.Errorf("step %d: Has(%x) = %v, want %v%s", step, hashOf(op.H), got, want, note)
			}
			if hit {
				o.Class("read-fault-in-lookup")
			}
			continue
		case "flush":
			if err := hs.Flush(); err != nil {
				return o, fmt.Errorf("step %d: Flush: %v", step, err)
			}
			commit()
			if err := verifyRaw(step, "flush"); err != nil {
				return o, err
			}
		case "reopen", "reopen_noflush":
			if op.Kind == "reopen" {
				if err := hs.Flush(); err != nil {
					return o, fmt.Errorf("step %d: Flush: %v", step, err)
				}
				commit()
			} else {
				pending = map[int]bool{}
				pendingN = 0
			}
			if err := hs.Close(); err != nil {
				return o, fmt.Errorf("step %d: Close: %v", step, err)
			}
			rw, err := bk.open()
			if err != nil {
				return o, fmt.Errorf("HARNESS: %v", err)
			}
			hs, err = index.NewHashSet(rw, op.B)
			if err != nil {
				return o, fmt.Errorf("step %d: reopen: %v", step, err)
			}
			batch = op.B
			if batch == 0 {
				batch = 1024
			}
			if hs.Len() < len(flushed) {
				return o, fmt.Errorf("step %d: reopened set has Len %d < %d distinct flushed", step, hs.Len(), len(flushed))
			}
			if err := verifyRaw(step, "reopen"); err != nil {
				return o, err
			}
			o.Class("reopen")
		}
		if err := verify(step, op.Kind); err != nil {
			return o, err
		}
	}
	if err := hs.Flush(); err != nil {
		return o, fmt.Errorf("final Flush: %v", err)
	}
	commit()
	if err := verify(len(c.Ops), "final"); err != nil {
		return o, err
	}
	if err := verifyRaw(len(c.Ops), "final"); err != nil {
		return o, err
	}
	hs.Close()
	o.NonTrivial = flushes >= 2 && (between || repeat)
	if between {
		o.Class("insert-between")
	}
	if repeat {
		o.Class("repeat-in-batch")
	}
	o.Class("backing=%s", c.Backing)
	keys := make([]int, 0, len(flushed))
	for k := range flushed {
		keys = append(keys, k)
	}
	sort.Ints(keys)
	return o, nil
}
