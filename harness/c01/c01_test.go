// C01 — committing a CSV stores exactly its rows (one per primary key), losslessly.
package c01

import (
	"fmt"
	"path/filepath"
	"strings"
	"testing"

	"pgregory.net/rapid"

	"verifharness/internal/evid"
	"verifharness/internal/gen"
	"verifharness/internal/ingestx"
	"verifharness/internal/model"
	"verifharness/internal/stores"
	"verifharness/internal/tblcheck"
)

func TestMain(m *testing.M) { evid.Main("C01", m) }

type Case struct {
	Table gen.Table      `json:"table"`
	Cfg   ingestx.Config `json:"cfg"`
}

var subIngest = evid.Register("ingest", runIngest)

func TestPropIngest(t *testing.T) {
	rapid.Check(t, func(t *rapid.T) {
		c := Case{
			Table: gen.GenTable(t, gen.TableOpts{MaxCols: 6, MaxRows: evid.Scale(600, 800), Boundary: true, MaxBig: 3, DupNames: true}, "t"),
			Cfg:   ingestx.GenConfig(t, "cfg"),
		}
		subIngest.Check(t, c)
	})
}

func TestReplay(t *testing.T) { evid.Replay(t) }

func spillFiles() int {
	m, _ := filepath.Glob(filepath.Join(evid.TempDir(), "sorted_chunk_*"))
	return len(m)
}

// checkStored compares the stored table with the model of the CSV's rows.
func checkStored(db *stores.Mem, sum []byte, cols []string, rows [][]string, pk []int) error {
	out, err := tblcheck.Validate(db, sum)
	if err != nil {
		return fmt.Errorf("stored table is not sound: %v", err)
	}
	tbl, _, err := tblcheck.Read(db, sum)
	if err != nil {
		return err
	}
	if !model.RowsEqual(tbl.Columns, cols) {
		return fmt.Errorf("columns %q, CSV header %q", tbl.Columns, cols)
	}
	if len(tbl.PK) != len(pk) {
		return fmt.Errorf("primary key %v, requested %v", tbl.PK, pk)
	}
	for i := range pk {
		if int(tbl.PK[i]) != pk[i] {
			return fmt.Errorf("primary key %v, requested %v", tbl.PK, pk)
		}
	}
	groups := model.Canon(rows, pk)
	if len(out) != len(groups) {
		return fmt.Errorf("%d rows stored, %d distinct keys in the CSV%s", len(out), len(groups), firstMissing(out, groups, pk))
	}
	for i, g := range groups {
		if k := model.KeyOf(out[i], pk); !model.RowsEqual(k, g.Key) {
			return fmt.Errorf("row %d has key %q, expected %q", i, clip(k), clip(g.Key))
		}
		found := false
		for _, in := range g.Rows {
			if model.RowsEqual(in, out[i]) {
				found = true
				break
			}
		}
		if !found {
			return fmt.Errorf("stored row %d %s equals no CSV row with key %q (candidates: %s)", i, clip(out[i]), clip(g.Key), clip(g.Rows[0]))
		}
	}
	return nil
}

func clip(r []string) string {
	parts := make([]string, len(r))
	for i, s := range r {
		if len(s) > 40 {
			parts[i] = fmt.Sprintf("%q...(%d bytes)", s[:20], len(s))
		} else {
			parts[i] = fmt.Sprintf("%q", s)
		}
	}
	return "[" + strings.Join(parts, " ") + "]"
}

func firstMissing(out [][]string, groups []model.Group, pk []int) string {
	have := map[string]bool{}
	for _, r := range out {
		have[model.TupleID(model.KeyOf(r, pk))] = true
	}
	for _, g := range groups {
		if !have[model.TupleID(g.Key)] {
			return fmt.Sprintf("; e.g. key %s is missing", clip(g.Key))
		}
	}
	return ""
}

func runIngest(c Case) (o evid.Outcome, err error) {
	csvBytes := c.Table.CSV(c.Cfg.Rune())
	cols, rows, perr := gen.ParseCSV(csvBytes, c.Cfg.Rune())
	if perr != nil {
		return o, fmt.Errorf("HARNESS: generated CSV does not parse: %v", perr)
	}
	db := stores.NewMem()
	before := spillFiles()
	sum, err := ingestx.CSVBytes(db, csvBytes, rows, c.Table.PKNames(), c.Cfg)
	if err != nil {
		return o, fmt.Errorf("IngestTable: %v", err)
	}
	if n := spillFiles(); n != before {
		return o, fmt.Errorf("%d spill files left behind after ingest", n-before)
	}
	if err := checkStored(db, sum, cols, rows, c.Table.PK); err != nil {
		return o, err
	}
	groups := model.Canon(rows, c.Table.PK)
	special := false
	for _, r := range rows {
		for _, s := range r {
			if s == "" || len(s) > 255 || strings.ContainsAny(s, "\"\n\r,|;\t\x00\xff\x80") {
				special = true
			}
		}
	}
	dups := len(groups) < len(rows)
	workers := c.Cfg.Workers - 2
	if workers < 1 {
		workers = 1
	}
	o.NonTrivial = len(rows) > 0 && (c.Cfg.Spills != 0 || len(groups) > 255 || dups || special || len(c.Table.PK) != 1 || workers > 1)
	o.Class("spills=%d", c.Cfg.Spills)
	o.Class("pk=%d", len(c.Table.PK))
	o.Class("workers=%d", workers)
	if dups {
		o.Class("duplicate-keys")
	}
	if special {
		o.Class("special-cells")
	}
	o.Class("blocks=%d", (len(groups)+254)/255)
	total := 0
	for _, r := range rows {
		for _, c := range r {
			total += len(c)
		}
	}
	if total > 1<<20 && len(groups) < 255 {
		o.Class("one-block>1MiB")
	}
	return o, nil
}
