package c01

import (
	"fmt"
	"strings"
	"testing"

	"github.com/wrgl/wrgl/pkg/objects"
	"pgregory.net/rapid"

	"verifharness/internal/cli"
	"verifharness/internal/evid"
	"verifharness/internal/gen"
	"verifharness/internal/ingestx"
	"verifharness/internal/model"
	"verifharness/internal/stores"
)

// ---- big rows: total encoded size crosses 64 KiB with further cells after the crossing --------

var subBig = evid.Register("bigrows", runIngest)

var bigSizes = []int{1, 255, 256, 1000, 32767, 32768, 40000, 65534, 65535}

func genBigTable(t *rapid.T) gen.Table {
	ncols := rapid.IntRange(2, 5).Draw(t, "ncols")
	cols := []string{"k", "b", "c", "d", "e"}[:ncols]
	pkc := rapid.IntRange(0, ncols-1).Draw(t, "pkcol")
	tb := gen.Table{Cols: cols, PK: []int{pkc}}
	if rapid.IntRange(0, 4).Draw(t, "nokey") == 0 {
		tb.PK = []int{}
	}
	n := rapid.IntRange(1, 5).Draw(t, "nrows")
	// a block of far fewer than 255 rows that is larger than 1 MiB / 2 MiB
	wide := rapid.IntRange(0, 7).Draw(t, "wide") == 0
	if wide {
		n = rapid.SampledFrom([]int{17, 18, 33, 40}).Draw(t, "nrowsWide")
	}
	for i := 0; i < n; i++ {
		row := make([]gen.Cell, ncols)
		for c := range row {
			if c == pkc {
				row[c] = gen.Cell(fmt.Sprintf("key%d", rapid.IntRange(0, 6).Draw(t, "key")))
				if wide {
					row[c] = gen.Cell(fmt.Sprintf("key%03d", (i*7)%n))
					continue
				}
				if rapid.IntRange(0, 5).Draw(t, "bigkey") == 0 {
					row[c] = gen.Cell(strings.Repeat("K", rapid.SampledFrom(bigSizes).Draw(t, "ksz")) + string(row[c]))
					if len(row[c]) > 65535 {
						row[c] = row[c][:65535]
					}
				}
				continue
			}
			sz := rapid.SampledFrom(bigSizes).Draw(t, "sz")
			if wide && c == (pkc+1)%ncols {
				sz = 65535
			}
			unit := rapid.SampledFrom([]string{"x", "ab", "\xff", "q\n"}).Draw(t, "unit")
			row[c] = gen.Cell(strings.Repeat(unit, sz/len(unit)+1)[:sz])
		}
		tb.Rows = append(tb.Rows, row)
	}
	return tb
}

func TestPropBigRows(t *testing.T) {
	rapid.Check(t, func(t *rapid.T) {
		subBig.Check(t, Case{Table: genBigTable(t), Cfg: ingestx.GenConfig(t, "cfg")})
	})
}

// ---- over-limit cells must be refused with an error ---------------------------------------------

type OverCase struct {
	Table gen.Table      `json:"table"`
	Cfg   ingestx.Config `json:"cfg"`
}

var subOver = evid.Register("overlimit", runOver)

func TestPropOverLimit(t *testing.T) {
	rapid.Check(t, func(t *rapid.T) {
		tb := gen.GenTable(t, gen.TableOpts{MaxCols: 4, MaxRows: 20, NoSpecial: true}, "t")
		if len(tb.Rows) == 0 {
			row := make([]gen.Cell, len(tb.Cols))
			tb.Rows = append(tb.Rows, row)
		}
		r := rapid.IntRange(0, len(tb.Rows)-1).Draw(t, "row")
		c := rapid.IntRange(0, len(tb.Cols)-1).Draw(t, "col")
		sz := rapid.SampledFrom([]int{65536, 65537, 70000, 131072, 65536 + 255}).Draw(t, "size")
		tb.Rows[r][c] = gen.Cell(strings.Repeat("z", sz))
		subOver.Check(t, OverCase{Table: tb, Cfg: ingestx.GenConfig(t, "cfg")})
	})
}

func runOver(c OverCase) (o evid.Outcome, err error) {
	db := stores.NewMem()
	sum, ierr := ingestx.Table(db, c.Table, c.Cfg)
	o.NonTrivial = true
	o.Class("spills=%d", c.Cfg.Spills)
	if ierr == nil {
		return o, fmt.Errorf("a table with a cell over 65535 bytes was ingested without error (table %x)", sum)
	}
	keys, _ := objects.GetAllTableKeys(db)
	if len(keys) != 0 {
		return o, fmt.Errorf("ingest returned %q but %d table object(s) were stored", ierr, len(keys))
	}
	return o, nil
}

// ---- CLI leg: wrgl commit ; wrgl export on a badger repository ----------------------------------

var subCLI = evid.Register("cli", runCLI)

func TestPropCLI(t *testing.T) {
	rapid.Check(t, func(t *rapid.T) {
		c := Case{
			Table: gen.GenTable(t, gen.TableOpts{MaxCols: 5, MaxRows: evid.Scale(300, 600), Boundary: true, MaxBig: 2, DupNames: true}, "t"),
			Cfg:   ingestx.GenConfig(t, "cfg"),
		}
		subCLI.Check(t, c)
	})
}

func runCLI(c Case) (o evid.Outcome, err error) {
	repo, err := cli.NewRepo()
	if err != nil {
		return o, fmt.Errorf("HARNESS: %v", err)
	}
	defer repo.Remove()
	delim := c.Cfg.Rune()
	csvBytes := c.Table.CSV(delim)
	cols, rows, perr := gen.ParseCSV(csvBytes, delim)
	if perr != nil {
		return o, fmt.Errorf("HARNESS: %v", perr)
	}
	fp, err := repo.WriteFile("in.csv", csvBytes)
	if err != nil {
		return o, fmt.Errorf("HARNESS: %v", err)
	}
	args := []string{"commit", "main", fp, "msg", "-n", fmt.Sprint(c.Cfg.Workers), "--mem-limit", fmt.Sprint(ingestx.RunSize(rows, c.Cfg.Spills)), "--delimiter", string(delim)}
	if len(c.Table.PK) > 0 {
		args = append(args, "-p", strings.Join(quoteAll(c.Table.PKNames()), ","))
	}
	if out, err := repo.Run(args...); err != nil {
		return o, fmt.Errorf("wrgl commit: %v (%s)", err, out)
	}
	out, err := repo.Run("export", "main")
	if err != nil {
		return o, fmt.Errorf("wrgl export: %v", err)
	}
	ecols, erows, perr := gen.ParseCSV([]byte(out), ',')
	if perr != nil {
		return o, fmt.Errorf("export output is not CSV: %v", perr)
	}
	if !model.RowsEqual(ecols, cols) {
		return o, fmt.Errorf("export header %q, committed %q", ecols, cols)
	}
	groups := model.Canon(rows, c.Table.PK)
	if len(erows) != len(groups) {
		return o, fmt.Errorf("export has %d rows, CSV has %d distinct keys", len(erows), len(groups))
	}
	for i, g := range groups {
		found := false
		for _, in := range g.Rows {
			// the exported CSV is parsed by encoding/csv again, which normalises \r\n inside
			// quoted cells; compare modulo that same normalisation
			if model.RowsEqual(normCR(in), normCR(erows[i])) {
				found = true
				break
			}
		}
		if !found {
			return o, fmt.Errorf("exported row %d %s equals no committed row with key %s", i, clip(erows[i]), clip(g.Key))
		}
	}
	// block read must agree with the export
	db, _, closeFn, err := repo.Open()
	if err != nil {
		return o, fmt.Errorf("HARNESS: reopen: %v", err)
	}
	defer closeFn()
	tkeys, _ := objects.GetAllTableKeys(db)
	if len(tkeys) != 1 {
		return o, fmt.Errorf("%d tables stored after one commit", len(tkeys))
	}
	o.NonTrivial = len(rows) > 0
	o.Class("spills=%d", c.Cfg.Spills)
	o.Class("pk=%d", len(c.Table.PK))
	o.Class("blocks=%d", (len(groups)+254)/255)
	return o, nil
}

func normCR(r []string) []string {
	out := make([]string, len(r))
	for i, s := range r {
		out[i] = strings.ReplaceAll(s, "\r\n", "\n")
	}
	return out
}

// quoteAll leaves names as they are; cobra's StringSlice flag splits on commas, and the generated
// column names contain none.
func quoteAll(s []string) []string { return s }
