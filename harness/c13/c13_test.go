// C13 — a crash at any point leaves the repository consistent and the operation repeatable.
package c13

import (
	"bytes"
	"fmt"
	"io"
	"os"
	"os/exec"
	"path/filepath"
	"strings"
	"testing"

	"github.com/go-logr/logr"
	apiutils "github.com/wrgl/wrgl/pkg/api/utils"
	"github.com/wrgl/wrgl/pkg/encoding/packfile"
	"github.com/wrgl/wrgl/pkg/objects"
	"github.com/wrgl/wrgl/pkg/ref"
	"github.com/wrgl/wrgl/pkg/verifhook"
	"pgregory.net/rapid"

	"verifharness/internal/cli"
	"verifharness/internal/evid"
	"verifharness/internal/gen"
	"verifharness/internal/repocheck"
	"verifharness/internal/stores"
	"verifharness/internal/syncx"
	"verifharness/internal/xfer"
)

func TestMain(m *testing.M) { evid.Main("C13", m) }

type Case struct {
	Op      string `json:"op"`      // commit | commit-first | commit-same | commit-unchanged | merge | prune | fetch | pull | pull-new
	Rows    int    `json:"rows"`    // size of the base table
	Edit    int    `json:"edit"`    // row edited by the operation's data
	Subproc bool   `json:"subproc"` // kill a real wrgl subprocess instead of failing writes in-process
	// ReadsOnly (merge, subprocess): only the read-fault pass, not the kill at every write
	ReadsOnly bool `json:"reads_only,omitempty"`
}

var sub = evid.Register("crash", run)

func TestPropCrash(t *testing.T) {
	rapid.Check(t, func(t *rapid.T) {
		c := Case{
			Op:   rapid.SampledFrom([]string{"commit", "commit-first", "merge", "prune", "fetch", "pull", "commit-same", "pull-new", "commit-unchanged"}).Draw(t, "op"),
			Rows: rapid.SampledFrom([]int{3, 40, 256, 300, 520}).Draw(t, "rows"),
		}
		c.Edit = rapid.IntRange(0, c.Rows-1).Draw(t, "edit")
		sub.Check(t, c)
	})
}

func TestPropCrashSubprocess(t *testing.T) {
	if os.Getenv("VERIF_WRGL_BIN") == "" {
		t.Skip("no wrgl binary")
	}
	rapid.Check(t, func(t *rapid.T) {
		c := Case{Op: rapid.SampledFrom([]string{"commit", "merge", "prune"}).Draw(t, "op"), Rows: rapid.SampledFrom([]int{3, 300}).Draw(t, "rows"), Subproc: true}
		c.Edit = rapid.IntRange(0, c.Rows-1).Draw(t, "edit")
		sub.Check(t, c)
	})
}

// TestPropMergeReadFault: a real `wrgl merge` subprocess whose n-th object read fails, for every n.
func TestPropMergeReadFault(t *testing.T) {
	if os.Getenv("VERIF_WRGL_BIN") == "" {
		t.Skip("no wrgl binary")
	}
	rapid.Check(t, func(t *rapid.T) {
		c := Case{Op: "merge", Rows: rapid.SampledFrom([]int{3, 40, 300, 520}).Draw(t, "rows"), Subproc: true, ReadsOnly: true}
		c.Edit = rapid.IntRange(0, c.Rows-1).Draw(t, "edit")
		sub.Check(t, c)
	})
}

func TestReplay(t *testing.T) { evid.Replay(t) }

func table(n int, edits map[int]string, drop map[int]bool) gen.Table {
	t := gen.Table{Cols: []string{"id", "v"}, PK: []int{0}}
	for i := 0; i < n; i++ {
		if drop[i] {
			continue
		}
		v := "x"
		if e, ok := edits[i]; ok {
			v = e
		}
		t.Rows = append(t.Rows, []gen.Cell{gen.Cell(fmt.Sprintf("k%05d", i)), gen.Cell(v)})
	}
	return t
}

func copyDir(src, dst string) error {
	return filepath.Walk(src, func(p string, info os.FileInfo, err error) error {
		if err != nil {
			return err
		}
		rel, _ := filepath.Rel(src, p)
		target := filepath.Join(dst, rel)
		if info.IsDir() {
			return os.MkdirAll(target, 0o755)
		}
		b, err := os.ReadFile(p)
		if err != nil {
			return err
		}
		return os.WriteFile(target, b, info.Mode())
	})
}

type world struct {
	repo *cli.Repo
	snap string // pristine copy of the repository right before the operation
	args []string
	sync *syncx.World // fetch / pull: the remote side (reference server)
}

func (w *world) restore() error {
	if err := os.RemoveAll(w.repo.WrglDir); err != nil {
		return err
	}
	return copyDir(w.snap, w.repo.WrglDir)
}

// setup builds the state before the operation and returns the operation's command line.
func setup(c Case) (*world, error) {
	repo, err := cli.NewRepo()
	if err != nil {
		return nil, err
	}
	w := &world{repo: repo}
	run := func(args ...string) error {
		if out, err := repo.Run(args...); err != nil {
			return fmt.Errorf("setup %v: %v (%s)", args, err, out)
		}
		return nil
	}
	base, _ := repo.WriteFile("base.csv", table(c.Rows, nil, nil).CSV(','))
	edited, _ := repo.WriteFile("edited.csv", table(c.Rows, map[int]string{c.Edit: "edited"}, nil).CSV(','))
	other, _ := repo.WriteFile("other.csv", table(c.Rows, map[int]string{(c.Edit + 1) % c.Rows: "other"}, map[int]bool{(c.Edit + 2) % c.Rows: c.Rows > 2}).CSV(','))
	switch c.Op {
	case "fetch", "pull", "pull-new":
		// the local repository shares c0 with the remote, which is two commits ahead on main
		// (pull-new: the local repository has no branch main yet, c0 is on another branch)
		repo.Remove()
		tp := syncx.Topology{
			Nodes: []syncx.Node{
				{Owner: syncx.Both, Parents: []int{}, Table: 1, Time: 1600000000},
				{Owner: syncx.Remote, Parents: []int{0}, Table: 2 + c.Rows%3, Time: 1600000060},
				{Owner: syncx.Remote, Parents: []int{1}, Table: 7 + c.Edit%3, Time: 1600000120},
			},
			Refs: []syncx.Ref{{Name: "heads/main", L: 0, R: 2, R2: 2}},
		}
		if c.Op == "pull-new" {
			tp.Refs = []syncx.Ref{{Name: "heads/main", L: -1, R: 2, R2: 2}, {Name: "heads/dev", L: 0, R: -1, R2: -1}}
		}
		// the remote also has a tag on one of the new commits (two thirds of the cases): fetch
		// follows tags whose commits it brings, and a re-run after a crash has to end with the tag too
		if t := c.Edit % 3; t > 0 {
			tp.Refs = append(tp.Refs, syncx.Ref{Name: "tags/v1", L: -1, R: t, R2: t})
		}
		sw, err := syncx.Build(tp)
		if err != nil {
			return nil, err
		}
		sw.Server.MaxPackfileSize = uint64([]int{0, 1, 4000}[c.Rows%3])
		// three quarters of the cases: the server offers its tables (TableHaves) before the first packfile
		// and leaves out those the client acknowledges
		sw.Server.TableNegotiation = c.Edit%4 != 0
		w.sync = sw
		w.repo = sw.Repo
		repo = sw.Repo
		if c.Op == "fetch" {
			w.args = []string{"fetch", "origin"}
		} else {
			w.args = []string{"pull", "main", "origin", "+refs/heads/main:refs/remotes/origin/main", "-n", "1"}
		}
	case "commit-first":
		w.args = []string{"commit", "main", base, "first", "-p", "id", "-n", "1"}
	case "commit":
		if err := run("commit", "main", base, "first", "-p", "id", "-n", "1"); err != nil {
			return nil, err
		}
		w.args = []string{"commit", "main", edited, "second", "-p", "id", "-n", "1"}
	case "commit-unchanged":
		// the branch file is committed once more without having changed: "nothing to commit"
		if err := run("commit", "main", base, "first", "-p", "id", "-n", "1", "--set-file", "--set-primary-key"); err != nil {
			return nil, err
		}
		w.args = []string{"commit", "main", "again", "-n", "1"}
	case "commit-same":
		// the data being committed is already the table of another branch (tables are content
		// addressed: whatever the interrupted commit does must not hurt that branch)
		if err := run("commit", "main", base, "first", "-p", "id", "-n", "1"); err != nil {
			return nil, err
		}
		if err := run("commit", "other", edited, "same data elsewhere", "-p", "id", "-n", "1"); err != nil {
			return nil, err
		}
		w.args = []string{"commit", "main", edited, "second", "-p", "id", "-n", "1"}
	case "merge":
		if err := run("commit", "main", base, "first", "-p", "id", "-n", "1"); err != nil {
			return nil, err
		}
		if err := run("branch", "create", "dev", "main"); err != nil {
			return nil, err
		}
		if err := run("commit", "main", edited, "edit main", "-p", "id", "-n", "1"); err != nil {
			return nil, err
		}
		if err := run("commit", "dev", other, "edit dev", "-p", "id", "-n", "1"); err != nil {
			return nil, err
		}
		w.args = []string{"merge", "main", "dev", "-n", "1"}
	case "prune":
		if err := run("commit", "main", base, "first", "-p", "id", "-n", "1"); err != nil {
			return nil, err
		}
		if err := run("branch", "create", "dev", "main"); err != nil {
			return nil, err
		}
		if err := run("commit", "dev", other, "edit dev", "-p", "id", "-n", "1"); err != nil {
			return nil, err
		}
		if err := run("commit", "dev", edited, "edit dev again", "-p", "id", "-n", "1"); err != nil {
			return nil, err
		}
		if err := run("branch", "delete", "dev"); err != nil {
			return nil, err
		}
		w.args = []string{"prune"}
	default:
		return nil, fmt.Errorf("unknown op %q", c.Op)
	}
	w.snap = repo.Root + ".snap"
	if err := copyDir(repo.WrglDir, w.snap); err != nil {
		return nil, err
	}
	return w, nil
}

func (w *world) cleanup() {
	if w.sync != nil {
		w.sync.Close()
	} else {
		w.repo.Remove()
	}
	os.RemoveAll(w.snap)
}

func (w *world) inspect(checkHeads bool) (string, error) {
	db, rs, closeFn, err := w.repo.Open()
	if err != nil {
		return "", fmt.Errorf("repository cannot be reopened: %v", err)
	}
	defer closeFn()
	if err := repocheck.Consistent(db, rs); err != nil {
		return "", err
	}
	if checkHeads {
		if err := repocheck.HeadsHaveTables(db, rs); err != nil {
			return "", err
		}
	}
	return repocheck.Signature(db, rs)
}

func run(c Case) (o evid.Outcome, err error) {
	w, err := setup(c)
	if err != nil {
		return o, fmt.Errorf("HARNESS: %v", err)
	}
	defer w.cleanup()
	defer verifhook.SetPlan(verifhook.Plan{})
	defer verifhook.SetReadPlan(0)
	checkHeads := c.Op != "prune"
	if c.Subproc && (c.Op == "fetch" || c.Op == "pull" || c.Op == "pull-new") {
		return o, fmt.Errorf("HARNESS: subprocess mode is not available for %s", c.Op)
	}

	// uninterrupted run: counts the storage writes and fixes the expected outcome
	verifhook.SetPlan(verifhook.Plan{})
	if out, err := w.repo.Run(w.args...); err != nil {
		return o, fmt.Errorf("uninterrupted %s: %v (%s)", c.Op, err, out)
	}
	total, _ := verifhook.Writes()
	want, err := w.inspect(checkHeads)
	if err != nil {
		return o, fmt.Errorf("after an uninterrupted %s: %v", c.Op, err)
	}
	if total < 1 {
		return o, fmt.Errorf("HARNESS: the operation performed no storage write")
	}
	points := 0
	modes := []bool{true, false}
	if c.ReadsOnly {
		modes = nil
	}
	for n := 1; n <= total; n++ {
		for _, dead := range modes {
			if c.Subproc && !dead {
				continue
			}
			if err := w.restore(); err != nil {
				return o, fmt.Errorf("HARNESS: restore: %v", err)
			}
			what := fmt.Sprintf("%s interrupted at storage write %d of %d (%s)", c.Op, n, total, map[bool]string{true: "process death", false: "single write error"}[dead])
			if c.Subproc {
				cmd := exec.Command(os.Getenv("VERIF_WRGL_BIN"), append([]string{"--wrgl-dir", w.repo.WrglDir}, w.args...)...)
				cmd.Dir = w.repo.Root
				cmd.Env = append(os.Environ(), fmt.Sprintf("VERIF_CRASH_AT=%d", n))
				out, _ := cmd.CombinedOutput()
				if cmd.ProcessState == nil || cmd.ProcessState.ExitCode() != 137 {
					return o, fmt.Errorf("HARNESS: subprocess did not die at write %d (exit %v): %s", n, cmd.ProcessState, out)
				}
				what = fmt.Sprintf("%s killed (os.Exit) right before storage write %d of %d", c.Op, n, total)
			} else {
				verifhook.SetPlan(verifhook.Plan{FailAt: n, Dead: dead})
				_, rerr := w.repo.Run(w.args...)
				_, hit := verifhook.Writes()
				verifhook.SetPlan(verifhook.Plan{})
				if hit && rerr == nil && dead {
					return o, fmt.Errorf("%s: every write from #%d on failed, yet the command reported success", what, n)
				}
			}
			if _, err := w.inspect(checkHeads); err != nil {
				return o, fmt.Errorf("%s: %v", what, err)
			}
			// the same operation again must succeed and end where an uninterrupted run ends
			if out, err := w.repo.Run(w.args...); err != nil {
				return o, fmt.Errorf("%s: running the operation again fails: %v (%s)", what, err, strings.TrimSpace(out))
			}
			got, err := w.inspect(checkHeads)
			if err != nil {
				return o, fmt.Errorf("%s, then re-run: %v", what, err)
			}
			if got != want {
				return o, fmt.Errorf("%s, then re-run: refs end at different tables/history than an uninterrupted run:\n got  %s want %s", what, got, want)
			}
			points++
		}
	}
	// ---- another operation on what an interrupted prune left behind: a commit that prune was
	// about to remove may still be stored while its table is already gone; merging it into a branch
	// must be refused (or give a branch whose head has its table) - branches written by merge never
	// point at a commit lacking its table
	if c.Op == "prune" && !c.Subproc {
		// the commits the deleted branch had
		if err := w.restore(); err != nil {
			return o, fmt.Errorf("HARNESS: restore: %v", err)
		}
		var orphans []string
		{
			db, rs, closeFn, err := w.repo.Open()
			if err != nil {
				return o, fmt.Errorf("HARNESS: %v", err)
			}
			keep := map[string]bool{}
			refs, _ := ref.ListAllRefs(rs)
			var stack [][]byte
			for _, v := range refs {
				stack = append(stack, v)
			}
			for len(stack) > 0 {
				sm := stack[len(stack)-1]
				stack = stack[:len(stack)-1]
				if keep[string(sm)] {
					continue
				}
				keep[string(sm)] = true
				if com, err := objects.GetCommit(db, sm); err == nil {
					stack = append(stack, com.Parents...)
				}
			}
			all, _ := objects.GetAllCommitKeys(db)
			for _, k := range all {
				if !keep[string(k)] {
					orphans = append(orphans, fmt.Sprintf("%x", k))
				}
			}
			closeFn()
		}
		merged := 0
		for n := 1; n <= total; n++ {
			for oi, orphan := range orphans {
				if err := w.restore(); err != nil {
					return o, fmt.Errorf("HARNESS: restore: %v", err)
				}
				verifhook.SetPlan(verifhook.Plan{FailAt: n, Dead: true})
				w.repo.Run(w.args...)
				verifhook.SetPlan(verifhook.Plan{})
				margs := []string{"merge", "main", orphan, "-n", "1"}
				if (n+oi)%2 == 1 {
					margs = append(margs, "--no-ff")
				}
				_, merr := w.repo.Run(margs...)
				if merr == nil {
					merged++
				}
				if _, err := w.inspect(true); err != nil {
					return o, fmt.Errorf("prune killed at storage write %d of %d, then `wrgl %s` (error: %v): %v", n, total, strings.Join(margs, " "), merr, err)
				}
			}
		}
		evid.Count("merges of a formerly unreachable commit after an interrupted prune", merged)
	}
	// ---- read faults: the n-th read of an object fails once (verif hook in the object store).
	// The command must fail - leaving a consistent repository on which the same command then
	// succeeds and ends where an uninterrupted run ends - or succeed with exactly that outcome.
	readPoints := 0
	// (not for merge: when one differ fails, `wrgl merge` returns while the other differ is still
	// reading, and closing the store under it crashes the process inside badger - in a one-shot CLI
	// process that is an ugly exit, in this in-process harness it would end the run; see DESIGN 10.6)
	if !c.Subproc && (c.Op == "commit" || c.Op == "commit-same" || c.Op == "commit-unchanged") {
		if err := w.restore(); err != nil {
			return o, fmt.Errorf("HARNESS: restore: %v", err)
		}
		verifhook.SetReadPlan(0)
		if out, err := w.repo.Run(w.args...); err != nil {
			return o, fmt.Errorf("uninterrupted %s (second time): %v (%s)", c.Op, err, out)
		}
		nreads, _ := verifhook.Reads()
		step := 1
		if nreads > 40 {
			step = nreads/40 + 1
		}
		for n := 1 + c.Edit%step; n <= nreads; n += step {
			if err := w.restore(); err != nil {
				return o, fmt.Errorf("HARNESS: restore: %v", err)
			}
			what := fmt.Sprintf("%s with object read %d of %d failing", c.Op, n, nreads)
			verifhook.SetReadPlan(n)
			_, rerr := w.repo.Run(w.args...)
			_, hit := verifhook.Reads()
			verifhook.SetReadPlan(0)
			if !hit {
				continue
			}
			got, err := w.inspect(checkHeads)
			if err != nil {
				return o, fmt.Errorf("%s: %v", what, err)
			}
			if rerr == nil {
				if got != want {
					return o, fmt.Errorf("%s: the command reported success, but the refs end at different tables/history than without the failure:\n got  %s want %s", what, got, want)
				}
			} else {
				if out, err := w.repo.Run(w.args...); err != nil {
					return o, fmt.Errorf("%s: running the operation again fails: %v (%s)", what, err, strings.TrimSpace(out))
				}
				got, err := w.inspect(checkHeads)
				if err != nil {
					return o, fmt.Errorf("%s, then re-run: %v", what, err)
				}
				if got != want {
					return o, fmt.Errorf("%s, then re-run: refs end at different tables/history than an uninterrupted run:\n got  %s want %s", what, got, want)
				}
			}
			readPoints++
		}
		evid.Count("read-fault points executed ("+c.Op+")", readPoints)
	}
	// ---- read faults inside `wrgl merge`, in a real subprocess (see the remark above: in-process a
	// failed differ can take the harness down with it): the n-th object read of the subprocess fails
	// once. Exit status 0 means the merge claims success - then the branch must end exactly where the
	// fault-free merge ends; anything else (an error, a crash) must leave a consistent repository on
	// which the same merge then succeeds with that outcome.
	if c.Subproc && c.Op == "merge" {
		for n := 1; n <= 400; n++ {
			if err := w.restore(); err != nil {
				return o, fmt.Errorf("HARNESS: restore: %v", err)
			}
			what := fmt.Sprintf("merge (subprocess) with object read %d failing", n)
			cmd := exec.Command(os.Getenv("VERIF_WRGL_BIN"), append([]string{"--wrgl-dir", w.repo.WrglDir}, w.args...)...)
			cmd.Dir = w.repo.Root
			cmd.Env = append(os.Environ(), fmt.Sprintf("VERIF_READ_FAIL_AT=%d", n))
			out, _ := cmd.CombinedOutput()
			if cmd.ProcessState == nil {
				return o, fmt.Errorf("HARNESS: subprocess did not run: %s", out)
			}
			if !strings.Contains(string(out), "verifhook: injected object read failure") {
				break // the merge performs fewer than n reads
			}
			got, err := w.inspect(checkHeads)
			if err != nil && cmd.ProcessState.ExitCode() != 0 && strings.Contains(err.Error(), "cannot be reopened") &&
				(strings.Contains(string(out), "panic:") || strings.Contains(string(out), "fatal error:")) {
				// the merge did not fail, it crashed: after the read error runMerge returns while the other
				// differ goroutine is still reading, and the deferred close of the store panics inside
				// badger (DESIGN 10.6). What a process death in the middle of badger's own Close leaves
				// behind is not "between two storage writes" of the operation - the merge had written
				// nothing yet - so it is recorded as an observation, not judged (DESIGN 10.7).
				evid.Count("merge read fault: process crashed inside the store's Close and the store cannot be reopened (observation, not judged)", 1)
				continue
			}
			if err != nil {
				return o, fmt.Errorf("%s (exit %d): %v", what, cmd.ProcessState.ExitCode(), err)
			}
			if cmd.ProcessState.ExitCode() == 0 {
				if got != want {
					return o, fmt.Errorf("%s: the command reported success, but the refs end at different tables/history than without the failure:\n got  %s want %s\n output: %s", what, got, want, strings.TrimSpace(string(out)))
				}
				evid.Count("merge read faults survived with the right result", 1)
			} else {
				if out, err := w.repo.Run(w.args...); err != nil {
					return o, fmt.Errorf("%s: running the operation again fails: %v (%s)", what, err, strings.TrimSpace(out))
				}
				got, err := w.inspect(checkHeads)
				if err != nil {
					return o, fmt.Errorf("%s, then re-run: %v", what, err)
				}
				if got != want {
					return o, fmt.Errorf("%s, then re-run: refs end at different tables/history than an uninterrupted run:\n got  %s want %s", what, got, want)
				}
			}
			readPoints++
		}
		evid.Count("read-fault points executed (merge, subprocess)", readPoints)
	}
	o.NonTrivial = total >= 4
	o.Class("op=%s", c.Op)
	o.Class("writes=%s", bucket(total))
	if c.Subproc {
		o.Class("subprocess-kill")
	}
	evid.Count("crash points executed ("+c.Op+")", points)
	return o, nil
}

func bucket(n int) string {
	switch {
	case n < 4:
		return "<4"
	case n <= 10:
		return "4-10"
	case n <= 30:
		return "11-30"
	default:
		return ">30"
	}
}

// ---- library level: ObjectReceiver.Receive with every write prefix ---------------------------------

type RecvCase struct {
	Tbl   int `json:"tbl"`
	Tbl2  int `json:"tbl2"`
	Limit int `json:"limit"`
}

var subRecv = evid.Register("receive-crash", runRecv)

func TestPropReceiveCrash(t *testing.T) {
	rapid.Check(t, func(t *rapid.T) {
		subRecv.Check(t, RecvCase{Tbl: rapid.IntRange(0, xfer.PoolSize-1).Draw(t, "tbl"), Tbl2: rapid.IntRange(0, xfer.PoolSize-1).Draw(t, "tbl2"), Limit: rapid.SampledFrom([]int{0, 1, 2000}).Draw(t, "limit")})
	})
}

func runRecv(c RecvCase) (o evid.Outcome, err error) {
	src := stores.NewMem()
	pool, err := xfer.Pool(src)
	if err != nil {
		return o, fmt.Errorf("HARNESS: %v", err)
	}
	d := gen.DAG{Nodes: []gen.Node{{Parents: []int{}, Time: 1600000000, Table: 0}, {Parents: []int{0}, Time: 1600000060, Table: 1}}}
	sums, err := stores.BuildHistory(src, d, [][]byte{pool[c.Tbl], pool[c.Tbl2]})
	if err != nil {
		return o, fmt.Errorf("HARNESS: %v", err)
	}
	var toSend []*objects.Commit
	tables := map[string]struct{}{string(pool[c.Tbl]): {}, string(pool[c.Tbl2]): {}}
	for _, s := range sums {
		com, _ := objects.GetCommit(src, s)
		toSend = append(toSend, com)
	}
	// produce the packfiles once
	sender, err := apiutils.NewObjectSender(src, toSend, tables, nil, uint64(c.Limit))
	if err != nil {
		return o, fmt.Errorf("HARNESS: %v", err)
	}
	var packs [][]byte
	for {
		var buf bytes.Buffer
		done, _, err := sender.WriteObjects(&buf, nil)
		if err != nil {
			return o, fmt.Errorf("HARNESS: %v", err)
		}
		packs = append(packs, buf.Bytes())
		if done {
			break
		}
	}
	receive := func(dst *stores.Mem) error {
		recv := apiutils.NewObjectReceiver(dst, sums, logr.Discard())
		for _, p := range packs {
			pr, err := packfile.NewPackfileReader(io.NopCloser(bytes.NewReader(p)))
			if err != nil {
				return err
			}
			if _, err := recv.Receive(pr, nil); err != nil {
				return err
			}
		}
		return nil
	}
	full := stores.NewMem()
	if err := receive(full); err != nil {
		return o, fmt.Errorf("uninterrupted receive: %v", err)
	}
	total := int(full.Sets)
	rs, _, closeFn, err := stores.NewRefStore()
	if err != nil {
		return o, fmt.Errorf("HARNESS: %v", err)
	}
	defer closeFn()
	for n := 1; n <= total; n++ {
		dst := stores.NewMem()
		w := 0
		dst.BeforeWrite = func(op string, key []byte) error {
			w++
			if w >= n {
				return fmt.Errorf("injected: process died")
			}
			return nil
		}
		rerr := receive(dst)
		dst.BeforeWrite = nil
		if rerr == nil {
			return o, fmt.Errorf("receive with every write from #%d failing reported success", n)
		}
		if err := repocheck.Consistent(dst, rs); err != nil {
			return o, fmt.Errorf("receive interrupted at store write %d of %d: %v", n, total, err)
		}
		// fetching again completes. Odd n: the same packfiles once more. Even n: what a renegotiated
		// transfer sends - only the commits the destination does not have and only the tables it
		// does not have (a table that is present counts as transferred, with its index and profile)
		if n%2 == 1 {
			if err := receive(dst); err != nil {
				return o, fmt.Errorf("receive interrupted at store write %d of %d: receiving again fails: %v", n, total, err)
			}
		} else {
			var toSend2 []*objects.Commit
			tables2 := map[string]struct{}{}
			var expect [][]byte
			for i, s := range sums {
				if !objects.CommitExist(dst, s) {
					toSend2 = append(toSend2, toSend[i])
					expect = append(expect, s)
				}
			}
			for ts := range tables {
				if !objects.TableExist(dst, []byte(ts)) {
					tables2[ts] = struct{}{}
				}
			}
			if len(toSend2) > 0 {
				sender2, err := apiutils.NewObjectSender(src, toSend2, tables2, nil, uint64(c.Limit))
				if err != nil {
					return o, fmt.Errorf("HARNESS: %v", err)
				}
				recv := apiutils.NewObjectReceiver(dst, expect, logr.Discard())
				for {
					var buf bytes.Buffer
					done, _, err := sender2.WriteObjects(&buf, nil)
					if err != nil {
						return o, fmt.Errorf("HARNESS: %v", err)
					}
					pr, err := packfile.NewPackfileReader(io.NopCloser(bytes.NewReader(buf.Bytes())))
					if err != nil {
						return o, fmt.Errorf("HARNESS: %v", err)
					}
					if _, err := recv.Receive(pr, nil); err != nil {
						return o, fmt.Errorf("receive interrupted at store write %d of %d: the renegotiated transfer fails: %v", n, total, err)
					}
					if done {
						break
					}
				}
			}
		}
		if err := repocheck.Consistent(dst, rs); err != nil {
			return o, fmt.Errorf("receive interrupted at write %d then repeated: %v", n, err)
		}
		if strings.Join(dst.Keys(), "|") != strings.Join(full.Keys(), "|") {
			return o, fmt.Errorf("receive interrupted at write %d then repeated: object set differs from an uninterrupted receive (%d vs %d keys)", n, dst.Len(), full.Len())
		}
	}
	evid.Count("crash points executed (receive)", total)
	o.NonTrivial = total >= 4
	o.Class("writes=%s", bucket(total))
	o.Class("packfiles=%d", len(packs))
	return o, nil
}
