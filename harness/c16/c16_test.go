// C16 — concurrent pipelines give the sequential result under every schedule. The binary is built
// with -race; the driver varies GOMAXPROCS per shard; seeded yields (verifhook.Yield) widen the
// interleavings at the shared-state touch points.
package c16

import (
	"bytes"
	"errors"
	"fmt"
	"sort"
	"strings"
	"testing"
	"time"

	"github.com/go-logr/logr"
	"github.com/wrgl/wrgl/pkg/diff"
	"github.com/wrgl/wrgl/pkg/objects"
	"github.com/wrgl/wrgl/pkg/progress"
	"github.com/wrgl/wrgl/pkg/verifhook"
	"pgregory.net/rapid"

	"verifharness/internal/cli"
	"verifharness/internal/evid"
	"verifharness/internal/gen"
	"verifharness/internal/ingestx"
	"verifharness/internal/mergex"
	"verifharness/internal/stores"
	"verifharness/internal/tblcheck"
)

func TestMain(m *testing.M) { evid.Main("C16", m) }

func procTable(blocks int, extra int, stride int) gen.Table {
	n := blocks*255 + extra
	t := gen.Table{Cols: []string{"id", "a", "b"}, PK: []int{0}}
	for stride < 1 || gcd(stride, n) != 1 {
		stride++
	}
	for i := 0; i < n; i++ {
		k := (i * stride) % n
		t.Rows = append(t.Rows, []gen.Cell{gen.Cell(fmt.Sprintf("k%07d", k)), gen.Cell(fmt.Sprintf("v%d", k%13)), "w"})
	}
	return t
}

func gcd(a, b int) int {
	for b != 0 {
		a, b = b, a%b
	}
	return a
}

// ---- ingest with a worker pool ---------------------------------------------------------------

type IngestCase struct {
	Blocks  int    `json:"blocks"`
	Extra   int    `json:"extra"`
	Stride  int    `json:"stride"`
	Workers int    `json:"workers"`
	Spills  int    `json:"spills"`
	Yield   uint64 `json:"yield"`
	Reps    int    `json:"reps"`
	FailAt  int    `json:"fail_at"` // >0: the n-th store write returns an error
	Persist bool   `json:"persist"` // every write from the n-th on fails (a full disk), not only the n-th
}

var subIngest = evid.Register("ingest-workers", runIngest)

func TestPropIngestWorkers(t *testing.T) {
	rapid.Check(t, func(t *rapid.T) {
		c := IngestCase{
			Blocks:  rapid.SampledFrom([]int{1, 2, 8, 9, 16, 40, evid.Scale(40, 200)}).Draw(t, "blocks"),
			Extra:   rapid.SampledFrom([]int{0, 1, 100, 254}).Draw(t, "extra"),
			Stride:  rapid.SampledFrom([]int{1, 7, 101, 1009}).Draw(t, "stride"),
			Workers: rapid.SampledFrom([]int{3, 4, 2, 8, 16, 18}).Draw(t, "workers"),
			Spills:  rapid.SampledFrom([]int{0, 0, 2, 5}).Draw(t, "spills"),
			Yield:   uint64(rapid.IntRange(0, 1000).Draw(t, "yield")),
			Reps:    evid.Scale(2, 4),
		}
		if rapid.IntRange(0, 3).Draw(t, "inject") == 0 {
			c.FailAt = rapid.IntRange(1, 2*c.Blocks+3).Draw(t, "failAt")
			c.Persist = rapid.Bool().Draw(t, "persist")
		}
		subIngest.Check(t, c)
	})
}

func runIngest(c IngestCase) (o evid.Outcome, err error) {
	tb := procTable(c.Blocks, c.Extra, c.Stride)
	ref := stores.NewMem()
	want, err := ingestx.Table(ref, tb, ingestx.Config{Delim: ",", Workers: 1})
	if err != nil {
		return o, fmt.Errorf("HARNESS: sequential ingest: %v", err)
	}
	for rep := 0; rep < c.Reps; rep++ {
		verifhook.SetYield(c.Yield + uint64(rep)*7919)
		db := stores.NewMem()
		injected := errors.New("injected store error")
		var writes int64
		if c.FailAt > 0 {
			db.BeforeWrite = func(op string, key []byte) error {
				// counted under the store's own discipline: several workers write concurrently
				if n := addInt64(&writes, 1); n == int64(c.FailAt) || (c.Persist && n > int64(c.FailAt)) {
					return injected
				}
				return nil
			}
		}
		sum, ierr := ingestx.Table(db, tb, ingestx.Config{Delim: ",", Workers: c.Workers, Spills: c.Spills})
		verifhook.SetYield(0)
		if c.FailAt > 0 && loadInt64(&writes) >= int64(c.FailAt) {
			if ierr == nil {
				return o, fmt.Errorf("store write #%d failed in a worker but ingest reported success", c.FailAt)
			}
			continue
		}
		if ierr != nil {
			return o, fmt.Errorf("ingest with %d workers: %v", c.Workers, ierr)
		}
		if !bytes.Equal(sum, want) {
			tbl, _ := objects.GetTable(db, sum)
			wt, _ := objects.GetTable(ref, want)
			return o, fmt.Errorf("ingest with %d workers (rep %d) gave table %x (%d rows, %d blocks), one worker gives %x (%d rows, %d blocks)", c.Workers, rep, sum, tbl.RowsCount, len(tbl.Blocks), want, wt.RowsCount, len(wt.Blocks))
		}
		if _, err := tblcheck.Validate(db, sum); err != nil {
			return o, fmt.Errorf("table ingested with %d workers is not sound: %v", c.Workers, err)
		}
		if strings.Join(db.Keys(), "|") != strings.Join(ref.Keys(), "|") {
			return o, fmt.Errorf("multi-worker ingest stored a different object set (%d vs %d keys): a block was lost or duplicated", db.Len(), ref.Len())
		}
	}
	eff := c.Workers - 2
	o.NonTrivial = (eff >= 2 && c.Blocks >= 8) || c.FailAt > 0
	o.Class("workers=%d", eff)
	o.Class("blocks=%s", bucket(c.Blocks))
	if c.FailAt > 0 {
		o.Class("injected-error")
		if c.Persist {
			o.Class("persistent-error")
		}
	}
	return o, nil
}

func bucket(n int) string {
	switch {
	case n < 8:
		return "<8"
	case n <= 40:
		return "8-40"
	default:
		return ">40"
	}
}

// ---- diff and merge pipelines -----------------------------------------------------------------

type PipeCase struct {
	Blocks int    `json:"blocks"`
	EditsA []int  `json:"edits_a"`
	EditsB []int  `json:"edits_b"`
	DelB   []int  `json:"del_b"`
	Yield  uint64 `json:"yield"`
	Reps   int    `json:"reps"`
	// FailReads > 0: every read of a block index fails from the n-th on (so that several differ
	// goroutines fail in the same merge); the merge must report the error, not hang
	FailReads int `json:"fail_reads"`
	// ProgUS > 0: the diff's and the merger's progress trackers run with this period (microseconds)
	// and are consumed and stopped the way the CLI does it, StopUS microseconds after the result
	// channel closed
	ProgUS int `json:"prog_us"`
	StopUS int `json:"stop_us"`
}

var subPipe = evid.Register("diff-merge", runPipe)

func TestPropDiffMerge(t *testing.T) {
	rapid.Check(t, func(t *rapid.T) {
		c := PipeCase{Blocks: rapid.SampledFrom([]int{1, 2, 3, 5}).Draw(t, "blocks"), Yield: uint64(rapid.IntRange(0, 1000).Draw(t, "yield")), Reps: evid.Scale(2, 4)}
		n := c.Blocks*255 + 17
		for i, k := 0, rapid.IntRange(0, 6).Draw(t, "na"); i < k; i++ {
			c.EditsA = append(c.EditsA, rapid.IntRange(0, n-1).Draw(t, "ea"))
		}
		for i, k := 0, rapid.IntRange(0, 6).Draw(t, "nb"); i < k; i++ {
			c.EditsB = append(c.EditsB, rapid.IntRange(0, n-1).Draw(t, "eb"))
		}
		for i, k := 0, rapid.IntRange(0, 3).Draw(t, "nd"); i < k; i++ {
			c.DelB = append(c.DelB, rapid.IntRange(0, n-1).Draw(t, "db"))
		}
		if rapid.IntRange(0, 2).Draw(t, "failreads") == 0 {
			c.FailReads = rapid.IntRange(1, 6).Draw(t, "failAt")
		}
		if rapid.IntRange(0, 1).Draw(t, "progress") == 0 {
			c.ProgUS = rapid.SampledFrom([]int{100, 300, 1000, 3000}).Draw(t, "progUS")
			c.StopUS = rapid.SampledFrom([]int{0, 50, 500, 4000}).Draw(t, "stopUS")
		}
		subPipe.Check(t, c)
	})
}

func variant(base gen.Table, edits []int, del []int, val string) gen.Table {
	out := gen.Table{Cols: base.Cols, PK: base.PK}
	dm := map[int]bool{}
	for _, d := range del {
		dm[d] = true
	}
	em := map[int]bool{}
	for _, e := range edits {
		em[e] = true
	}
	for i, r := range base.Rows {
		if dm[i] {
			continue
		}
		row := append([]gen.Cell{}, r...)
		if em[i] {
			row[1] = gen.Cell(val)
		}
		out.Rows = append(out.Rows, row)
	}
	return out
}

func diffEvents(db objects.Store, a, b []byte, progUS, stopUS int) (string, error) {
	ta, _ := objects.GetTable(db, a)
	tb, _ := objects.GetTable(db, b)
	ia, _ := objects.GetTableIndex(db, a)
	ib, _ := objects.GetTableIndex(db, b)
	errCh := make(chan error, 4)
	var dopts []diff.DiffOption
	if progUS > 0 {
		dopts = append(dopts, diff.WithProgressInterval(time.Duration(progUS)*time.Microsecond))
	}
	ch, pt := diff.DiffTables(db, db, ta, tb, ia, ib, errCh, logr.Discard(), dopts...)
	var evs []string
	// like collectDiffObjects: consume the tracker's events while collecting, stop it afterwards
	var pch <-chan progress.Event
	if progUS > 0 {
		pch = pt.Start()
	}
loop:
	for {
		select {
		case <-pch:
		case d, ok := <-ch:
			if !ok {
				break loop
			}
			evs = append(evs, fmt.Sprintf("%x|%x|%x|%d|%d", d.PK, d.Sum, d.OldSum, d.Offset, d.OldOffset))
		}
	}
	if progUS > 0 {
		time.Sleep(time.Duration(stopUS) * time.Microsecond)
		pt.Stop()
	}
	select {
	case e := <-errCh:
		return "", e
	default:
	}
	sort.Strings(evs)
	return strings.Join(evs, "\n"), nil
}

func runPipe(c PipeCase) (o evid.Outcome, err error) {
	base := procTable(c.Blocks, 17, 1)
	// keep the two edit sets disjoint so that the merge is conflict free and comparable
	inA := map[int]bool{}
	for _, e := range c.EditsA {
		inA[e] = true
	}
	var eb, db2 []int
	for _, e := range c.EditsB {
		if !inA[e] {
			eb = append(eb, e)
		}
	}
	for _, e := range c.DelB {
		if !inA[e] {
			db2 = append(db2, e)
		}
	}
	a := variant(base, c.EditsA, nil, "edited-A")
	b := variant(base, eb, db2, "edited-B")
	db := stores.NewMem()
	bs, err := ingestx.Simple(db, base)
	if err != nil {
		return o, fmt.Errorf("HARNESS: %v", err)
	}
	as, _ := ingestx.Simple(db, a)
	bsum, _ := ingestx.Simple(db, b)
	popts := mergex.Opts{}
	if c.ProgUS > 0 {
		popts = mergex.Opts{Period: time.Duration(c.ProgUS) * time.Microsecond, Consume: true, StopDelay: time.Duration(c.StopUS) * time.Microsecond}
	}
	if c.FailReads > 0 {
		var reads int64
		db.BeforeRead = func(key []byte) error {
			if bytes.HasPrefix(key, []byte("blkidx/")) {
				if addInt64(&reads, 1) >= int64(c.FailReads) {
					return errors.New("injected read error")
				}
			}
			return nil
		}
		verifhook.SetYield(c.Yield)
		_, derr := diffEvents(db, as, bs, c.ProgUS, c.StopUS)
		_, merr := mergex.RunWith(db, bs, [][]byte{as, bsum}, "rows", popts)
		verifhook.SetYield(0)
		db.BeforeRead = nil
		if derr == nil || merr == nil {
			return o, fmt.Errorf("every block index read from #%d on failed, yet diff (err=%v) or merge (err=%v) reported success", c.FailReads, derr, merr)
		}
		o.NonTrivial = true
		o.Class("injected-read-errors")
		return o, nil
	}
	var firstDiff, firstMerge string
	for rep := 0; rep < c.Reps; rep++ {
		verifhook.SetYield(c.Yield + uint64(rep)*104729)
		d, err := diffEvents(db, as, bs, c.ProgUS, c.StopUS)
		if err != nil {
			verifhook.SetYield(0)
			return o, fmt.Errorf("diff: %v", err)
		}
		res, err := mergex.RunWith(db, bs, [][]byte{as, bsum}, "rows", popts)
		verifhook.SetYield(0)
		if err != nil {
			return o, fmt.Errorf("merge: %v", err)
		}
		var mb strings.Builder
		fmt.Fprintf(&mb, "%d unresolved;", len(res.Unresolved))
		for _, r := range res.Rows {
			mb.WriteString(strings.Join(r, ","))
			mb.WriteString("\n")
		}
		if rep == 0 {
			firstDiff, firstMerge = d, mb.String()
			if len(res.Unresolved) != 0 {
				return o, fmt.Errorf("disjoint edits produced %d conflicts", len(res.Unresolved))
			}
			wantRows := len(base.Rows) - len(uniq(db2))
			if len(res.Rows) != wantRows {
				return o, fmt.Errorf("merge result has %d rows, expected %d: a row was lost or duplicated", len(res.Rows), wantRows)
			}
			continue
		}
		if d != firstDiff {
			return o, fmt.Errorf("diff events differ between two runs of the same diff (rep %d)", rep)
		}
		if mb.String() != firstMerge {
			return o, fmt.Errorf("merge outcome differs between two runs of the same merge (rep %d)", rep)
		}
	}
	o.NonTrivial = c.Blocks >= 2
	o.Class("blocks=%d", c.Blocks)
	if c.ProgUS > 0 {
		o.Class("progress-tracker-consumed")
	}
	return o, nil
}

func uniq(a []int) []int {
	m := map[int]bool{}
	var out []int
	for _, x := range a {
		if !m[x] {
			m[x] = true
			out = append(out, x)
		}
	}
	return out
}

// ---- CLI: commit with N workers and merge (progress bars / trackers run concurrently) ----------

type CLICase struct {
	Blocks  int `json:"blocks"`
	Workers int `json:"workers"`
	// FailAt > 0: before the commits above, a `wrgl commit` of the same data runs with its
	// FailAt-th storage write failing (verif hook; Persist: and every later one): it must come
	// back with an error - progress bars and all - and leave a repository the next commit works on
	FailAt  int  `json:"fail_at,omitempty"`
	Persist bool `json:"persist,omitempty"`
}

var subCLI = evid.Register("cli-commit-merge", runCLI)

func TestPropCLI(t *testing.T) {
	rapid.Check(t, func(t *rapid.T) {
		c := CLICase{Blocks: rapid.SampledFrom([]int{1, 2, 3, 6}).Draw(t, "blocks"), Workers: rapid.SampledFrom([]int{1, 4, 8, 16}).Draw(t, "workers")}
		if rapid.Bool().Draw(t, "fault") {
			c.FailAt = rapid.IntRange(1, 2*c.Blocks+4).Draw(t, "failAt")
			c.Persist = rapid.Bool().Draw(t, "persist")
		}
		subCLI.Check(t, c)
	})
}

func runCLI(c CLICase) (o evid.Outcome, err error) {
	repo, err := cli.NewRepo()
	if err != nil {
		return o, fmt.Errorf("HARNESS: %v", err)
	}
	defer repo.Remove()
	base := procTable(c.Blocks, 30, 7)
	fp, _ := repo.WriteFile("base.csv", base.CSV(','))
	w := fmt.Sprint(c.Workers)
	if c.FailAt > 0 {
		verifhook.SetPlan(verifhook.Plan{FailAt: c.FailAt, Dead: c.Persist})
		_, ferr := repo.Run("commit", "main", fp, "base", "-p", "id", "-n", w)
		_, hit := verifhook.Writes()
		verifhook.SetPlan(verifhook.Plan{})
		if hit && ferr == nil && c.Persist {
			return o, fmt.Errorf("`wrgl commit -n %s`: every storage write from #%d on failed, yet the command reported success", w, c.FailAt)
		}
		if hit {
			o.Class("cli-commit-with-failing-write")
		}
	}
	if out, err := repo.Run("commit", "main", fp, "base", "-p", "id", "-n", w); err != nil {
		return o, fmt.Errorf("commit: %v (%s)", err, out)
	}
	if out, err := repo.Run("branch", "create", "dev", "main"); err != nil {
		return o, fmt.Errorf("branch: %v (%s)", err, out)
	}
	a := variant(base, []int{1, 300 % len(base.Rows)}, nil, "edited-main")
	fa, _ := repo.WriteFile("a.csv", a.CSV(','))
	if out, err := repo.Run("commit", "main", fa, "edit main", "-p", "id", "-n", w); err != nil {
		return o, fmt.Errorf("commit: %v (%s)", err, out)
	}
	b := variant(base, []int{5}, []int{7}, "edited-dev")
	fb, _ := repo.WriteFile("b.csv", b.CSV(','))
	if out, err := repo.Run("commit", "dev", fb, "edit dev", "-p", "id", "-n", w); err != nil {
		return o, fmt.Errorf("commit: %v (%s)", err, out)
	}
	if out, err := repo.Run("merge", "main", "dev", "-n", w); err != nil {
		return o, fmt.Errorf("merge: %v (%s)", err, out)
	}
	out, err := repo.Run("export", "main")
	if err != nil {
		return o, fmt.Errorf("export: %v", err)
	}
	_, rows, perr := gen.ParseCSV([]byte(out), ',')
	if perr != nil {
		return o, fmt.Errorf("export output: %v", perr)
	}
	want := len(base.Rows) - 1
	if len(rows) != want {
		return o, fmt.Errorf("after merging disjoint edits the branch has %d rows, expected %d", len(rows), want)
	}
	edited := 0
	for _, r := range rows {
		if strings.HasPrefix(r[1], "edited-") {
			edited++
		}
	}
	if edited != 3 {
		return o, fmt.Errorf("merge result carries %d of the 3 edits", edited)
	}
	o.NonTrivial = c.Workers >= 4 && c.Blocks >= 2
	o.Class("workers=%d", c.Workers)
	return o, nil
}

func TestReplay(t *testing.T) { evid.Replay(t) }
