package c16

import (
	"bytes"
	"fmt"
	"io"
	"os"
	"path/filepath"
	"sort"
	"testing"

	"github.com/go-logr/logr"
	"github.com/wrgl/wrgl/pkg/ingest"
	"github.com/wrgl/wrgl/pkg/objects"
	"github.com/wrgl/wrgl/pkg/sorter"
	"pgregory.net/rapid"

	"verifharness/internal/evid"
	"verifharness/internal/stores"
	"verifharness/internal/tblcheck"
)

// An error in the producer: the sorter has spilled runs to disk, one run file loses its last
// byte(s) (a record is cut in the middle) before the runs are merged into blocks for the insert
// workers. The merge goroutine fails reading that run; ingest must report the error - or, if it
// reports success, the stored table must hold every row.
type ChunkFaultCase struct {
	Blocks  int `json:"blocks"`
	Stride  int `json:"stride"`
	Workers int `json:"workers"`
	Runs    int `json:"runs"`   // approximate number of spilled runs
	Victim  int `json:"victim"` // which run file is damaged (mod number of files)
	Cut     int `json:"cut"`    // bytes removed from its end
}

var subChunk = evid.Register("ingest-chunk-fault", runChunkFault)

func TestPropIngestChunkFault(t *testing.T) {
	rapid.Check(t, func(t *rapid.T) {
		subChunk.Check(t, ChunkFaultCase{
			Blocks:  rapid.SampledFrom([]int{2, 3, 8, 12}).Draw(t, "blocks"),
			Stride:  rapid.SampledFrom([]int{1, 7, 101, 1009}).Draw(t, "stride"),
			Workers: rapid.SampledFrom([]int{1, 2, 3, 4, 8, 16}).Draw(t, "workers"),
			Runs:    rapid.SampledFrom([]int{2, 3, 5, 9}).Draw(t, "runs"),
			Victim:  rapid.IntRange(0, 8).Draw(t, "victim"),
			Cut:     rapid.SampledFrom([]int{1, 1, 2, 3, 7}).Draw(t, "cut"),
		})
	})
}

func chunkFiles() []string {
	m, _ := filepath.Glob(filepath.Join(evid.TempDir(), "sorted_chunk_*"))
	sort.Strings(m)
	return m
}

func runChunkFault(c ChunkFaultCase) (o evid.Outcome, err error) {
	tb := procTable(c.Blocks, 17, c.Stride)
	csvBytes := tb.CSV(',')
	before := map[string]bool{}
	for _, f := range chunkFiles() {
		before[f] = true
	}
	s, err := sorter.NewSorter(sorter.WithRunSize(uint64(len(csvBytes)/c.Runs + 1)))
	if err != nil {
		return o, fmt.Errorf("HARNESS: %v", err)
	}
	defer s.Close()
	if err := s.SortFile(io.NopCloser(bytes.NewReader(csvBytes)), []string{"id"}); err != nil {
		return o, fmt.Errorf("HARNESS: SortFile: %v", err)
	}
	var mine []string
	for _, f := range chunkFiles() {
		if !before[f] {
			mine = append(mine, f)
		}
	}
	if len(mine) == 0 {
		o.Class("no-spill")
		return o, nil
	}
	victim := mine[c.Victim%len(mine)]
	st, err := os.Stat(victim)
	if err != nil || st.Size() <= int64(c.Cut) {
		return o, fmt.Errorf("HARNESS: run file %s: %v", victim, err)
	}
	if err := os.Truncate(victim, st.Size()-int64(c.Cut)); err != nil {
		return o, fmt.Errorf("HARNESS: %v", err)
	}
	db := stores.NewMem()
	ins := ingest.NewInserter(db, s, logr.Discard(), ingest.WithNumWorkers(c.Workers))
	sum, ierr := ins.IngestTableFromSorter(s.Columns, s.PK)
	o.NonTrivial = true
	o.Class("runs=%d", len(mine))
	if ierr != nil {
		o.Class("error-reported")
		return o, nil
	}
	// success is only acceptable if nothing was lost
	tbl, err := objects.GetTable(db, sum)
	if err != nil {
		return o, fmt.Errorf("ingest reported success after a run file was damaged, but the table is unreadable: %v", err)
	}
	if int(tbl.RowsCount) != len(tb.Rows) {
		return o, fmt.Errorf("a spilled run lost its last %d byte(s); ingest with %d workers reported success and stored %d of %d rows", c.Cut, c.Workers, tbl.RowsCount, len(tb.Rows))
	}
	if _, err := tblcheck.Validate(db, sum); err != nil {
		return o, fmt.Errorf("ingest reported success after a run file was damaged, table not sound: %v", err)
	}
	o.Class("success-with-all-rows")
	return o, nil
}
