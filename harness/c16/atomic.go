package c16

import "sync/atomic"

func addInt64(p *int64, d int64) int64 { return atomic.AddInt64(p, d) }
func loadInt64(p *int64) int64         { return atomic.LoadInt64(p) }
