// C02 — a table's identity depends only on its logical content.
package c02

import (
	"bytes"
	"fmt"
	"os"
	"strings"
	"testing"
	"time"

	"github.com/wrgl/wrgl/pkg/objects"
	"github.com/wrgl/wrgl/pkg/ref"
	"pgregory.net/rapid"

	"verifharness/internal/cli"
	"verifharness/internal/evid"
	"verifharness/internal/gen"
	"verifharness/internal/ingestx"
	"verifharness/internal/model"
	"verifharness/internal/stores"
)

func TestMain(m *testing.M) { evid.Main("C02", m) }

type Case struct {
	Table gen.Table      `json:"table"`
	Cfg1  ingestx.Config `json:"cfg1"`
	Cfg2  ingestx.Config `json:"cfg2"`
	Perm  []int          `json:"perm"` // row order of the second ingest
}

var subSame = evid.Register("same-content", runSame)

func permuted(t gen.Table, perm []int) gen.Table {
	out := gen.Table{Cols: t.Cols, PK: t.PK, Rows: make([][]gen.Cell, len(t.Rows))}
	for i, p := range perm {
		out.Rows[i] = t.Rows[p]
	}
	return out
}

func genPerm(t *rapid.T, n int) []int {
	idx := make([]int, n)
	for i := range idx {
		idx[i] = i
	}
	switch rapid.IntRange(0, 3).Draw(t, "permkind") {
	case 0:
		return idx
	case 1: // reversed
		for i, j := 0, n-1; i < j; i, j = i+1, j-1 {
			idx[i], idx[j] = idx[j], idx[i]
		}
		return idx
	default:
		if n == 0 {
			return idx
		}
		return rapid.Permutation(idx).Draw(t, "perm")
	}
}

func TestPropSameContent(t *testing.T) {
	rapid.Check(t, func(t *rapid.T) {
		tb := gen.GenTable(t, gen.TableOpts{MaxCols: 5, MaxRows: evid.Scale(600, 800), Boundary: true, ForceUnique: true, MaxBig: 2, DupNames: true}, "t")
		c := Case{Table: tb, Cfg1: ingestx.GenConfig(t, "c1"), Cfg2: ingestx.GenConfig(t, "c2"), Perm: genPerm(t, len(tb.Rows))}
		subSame.Check(t, c)
	})
}

func runSame(c Case) (o evid.Outcome, err error) {
	db := stores.NewMem()
	sum1, err := ingestx.Table(db, c.Table, c.Cfg1)
	if err != nil {
		return o, fmt.Errorf("first ingest: %v", err)
	}
	keys1 := db.Keys()
	snap1 := db.Snapshot()
	sum2, err := ingestx.Table(db, permuted(c.Table, c.Perm), c.Cfg2)
	if err != nil {
		return o, fmt.Errorf("second ingest: %v", err)
	}
	if !bytes.Equal(sum1, sum2) {
		return o, fmt.Errorf("same logical table got two identifiers: %x (cfg %+v) and %x (cfg %+v, permuted rows)", sum1, c.Cfg1, sum2, c.Cfg2)
	}
	keys2 := db.Keys()
	if strings.Join(keys1, "\n") != strings.Join(keys2, "\n") {
		return o, fmt.Errorf("second ingest of the same content added objects: %d keys before, %d after", len(keys1), len(keys2))
	}
	for k, v := range db.Snapshot() {
		if !bytes.Equal(v, snap1[k]) {
			return o, fmt.Errorf("object %q was rewritten with different bytes by the second ingest", k[:4])
		}
	}
	// a different store ("another machine") must agree too
	db2 := stores.NewMem()
	sum3, err := ingestx.Table(db2, permuted(c.Table, c.Perm), c.Cfg2)
	if err != nil {
		return o, fmt.Errorf("third ingest: %v", err)
	}
	if !bytes.Equal(sum1, sum3) {
		return o, fmt.Errorf("fresh store got identifier %x, first store %x", sum3, sum1)
	}
	if strings.Join(db2.Keys(), "\n") != strings.Join(keys1, "\n") {
		return o, fmt.Errorf("fresh store holds a different object set: %d vs %d keys", db2.Len(), len(keys1))
	}
	identity := true
	for i, p := range c.Perm {
		if i != p {
			identity = false
		}
	}
	differs := c.Cfg1 != c.Cfg2 || !identity
	o.NonTrivial = len(c.Table.Rows) >= 2 && differs
	if c.Cfg1.Spills != c.Cfg2.Spills {
		o.Class("spills-differ")
	}
	if c.Cfg1.Workers != c.Cfg2.Workers {
		o.Class("workers-differ")
	}
	if c.Cfg1.Delim != c.Cfg2.Delim {
		o.Class("delimiter-differs")
	}
	if !identity {
		o.Class("rows-permuted")
	}
	o.Class("blocks=%d", (len(c.Table.Rows)+254)/255)
	return o, nil
}

// ---- a single mutation must change the identifier ---------------------------------------------

type MutCase struct {
	Table gen.Table      `json:"table"`
	Cfg   ingestx.Config `json:"cfg"`
	Kind  string         `json:"kind"` // cell | colname | swapcols | key
	A     int            `json:"a"`
	B     int            `json:"b"`
	Val   gen.Cell       `json:"val"`
}

var subMut = evid.Register("mutation", runMut)

func TestPropMutation(t *testing.T) {
	rapid.Check(t, func(t *rapid.T) {
		tb := gen.GenTable(t, gen.TableOpts{MaxCols: 5, MaxRows: evid.Scale(300, 600), Boundary: true, ForceUnique: true, MaxBig: 1}, "t")
		c := MutCase{Table: tb, Cfg: ingestx.GenConfig(t, "cfg")}
		kinds := []string{"colname", "key"}
		if len(tb.Rows) > 0 {
			kinds = append(kinds, "cell", "cell", "cell")
		}
		if len(tb.Cols) > 1 {
			kinds = append(kinds, "swapcols")
		}
		c.Kind = rapid.SampledFrom(kinds).Draw(t, "kind")
		switch c.Kind {
		case "cell":
			c.A = rapid.IntRange(0, len(tb.Rows)-1).Draw(t, "row")
			c.B = rapid.IntRange(0, len(tb.Cols)-1).Draw(t, "col")
			c.Val = gen.Cell(rapid.SampledFrom([]string{"", "0", "zz", "v0-1", " ", "\x00", "A", "a"}).Draw(t, "val"))
		case "colname":
			c.A = rapid.IntRange(0, len(tb.Cols)-1).Draw(t, "col")
			c.Val = gen.Cell(rapid.SampledFrom([]string{"zz", "A", "a ", "Id"}).Draw(t, "name"))
		case "swapcols":
			c.A = rapid.IntRange(0, len(tb.Cols)-2).Draw(t, "col")
			c.B = rapid.IntRange(c.A+1, len(tb.Cols)-1).Draw(t, "col2")
		case "key":
			c.A = rapid.IntRange(0, 3).Draw(t, "keymut")
		}
		subMut.Check(t, c)
	})
}

func clone(t gen.Table) gen.Table {
	out := gen.Table{Cols: append([]string{}, t.Cols...), PK: append([]int{}, t.PK...), Rows: make([][]gen.Cell, len(t.Rows))}
	for i, r := range t.Rows {
		out.Rows[i] = append([]gen.Cell{}, r...)
	}
	return out
}

// mutate returns the mutated table, or ok=false when the mutation is a no-op for this table.
func mutate(c MutCase) (gen.Table, bool) {
	m := clone(c.Table)
	switch c.Kind {
	case "cell":
		if m.Rows[c.A][c.B] == c.Val {
			return m, false
		}
		m.Rows[c.A][c.B] = c.Val
	case "colname":
		for _, n := range m.Cols {
			if n == string(c.Val) {
				return m, false
			}
		}
		m.Cols[c.A] = string(c.Val)
	case "swapcols":
		m.Cols[c.A], m.Cols[c.B] = m.Cols[c.B], m.Cols[c.A]
		for _, r := range m.Rows {
			r[c.A], r[c.B] = r[c.B], r[c.A]
		}
		for i, k := range m.PK {
			if k == c.A {
				m.PK[i] = c.B
			} else if k == c.B {
				m.PK[i] = c.A
			}
		}
	case "key":
		// change the key choice while keeping keys unique: append a column, drop the last key
		// column (only when the rest is still unique), or reverse the key order
		switch c.A {
		case 0, 1:
			used := map[int]bool{}
			for _, k := range m.PK {
				used[k] = true
			}
			for i := range m.Cols {
				if !used[i] {
					m.PK = append(m.PK, i)
					return m, len(c.Table.PK) > 0 // keyless -> keyed may collapse rows, skip
				}
			}
			return m, false
		case 2:
			if len(m.PK) < 2 {
				return m, false
			}
			m.PK[0], m.PK[len(m.PK)-1] = m.PK[len(m.PK)-1], m.PK[0]
		default:
			return m, false
		}
	}
	return m, true
}

func runMut(c MutCase) (o evid.Outcome, err error) {
	m, ok := mutate(c)
	o.Class("kind=%s", c.Kind)
	if !ok {
		o.Class("noop")
		return o, nil
	}
	// the mutation must change the logical table (what encoding/csv reads back, one row per key);
	// e.g. turning a blank line into a duplicate of another row does not
	if logical(c.Table, c.Cfg) == logical(m, c.Cfg) {
		o.Class("noop")
		return o, nil
	}
	db := stores.NewMem()
	sum1, err := ingestx.Table(db, c.Table, c.Cfg)
	if err != nil {
		return o, fmt.Errorf("ingest original: %v", err)
	}
	sum2, err := ingestx.Table(db, m, c.Cfg)
	if err != nil {
		return o, fmt.Errorf("ingest mutated: %v", err)
	}
	if bytes.Equal(sum1, sum2) {
		return o, fmt.Errorf("tables differing by one %s mutation share the identifier %x", c.Kind, sum1)
	}
	o.NonTrivial = true
	return o, nil
}

// ---- CLI: re-committing unchanged data is detected as 'no change' --------------------------------

var subCLI = evid.Register("cli-nochange", runCLI)

func TestPropCLINoChange(t *testing.T) {
	rapid.Check(t, func(t *rapid.T) {
		tb := gen.GenTable(t, gen.TableOpts{MaxCols: 4, MaxRows: evid.Scale(300, 600), Boundary: true, ForceUnique: true, NoSpecial: false}, "t")
		c := Case{Table: tb, Cfg1: ingestx.GenConfig(t, "c1"), Cfg2: ingestx.GenConfig(t, "c2"), Perm: genPerm(t, len(tb.Rows))}
		c.Cfg2.Delim = c.Cfg1.Delim // branch.delimiter is remembered by --set-file
		subCLI.Check(t, c)
	})
}

func runCLI(c Case) (o evid.Outcome, err error) {
	repo, err := cli.NewRepo()
	if err != nil {
		return o, fmt.Errorf("HARNESS: %v", err)
	}
	defer repo.Remove()
	delim := c.Cfg1.Rune()
	fp, err := repo.WriteFile("data.csv", c.Table.CSV(delim))
	if err != nil {
		return o, fmt.Errorf("HARNESS: %v", err)
	}
	rows := gen.Rows(c.Table.Rows)
	args := []string{"commit", "main", fp, "first", "--set-file", "--set-primary-key", "-n", fmt.Sprint(c.Cfg1.Workers),
		"--mem-limit", fmt.Sprint(ingestx.RunSize(rows, c.Cfg1.Spills)), "--delimiter", string(delim)}
	if len(c.Table.PK) > 0 {
		args = append(args, "-p", strings.Join(c.Table.PKNames(), ","))
	}
	if out, err := repo.Run(args...); err != nil {
		return o, fmt.Errorf("first commit: %v (%s)", err, out)
	}
	head1, err := headOf(repo)
	if err != nil {
		return o, err
	}
	// another store ("another machine"): the badger repository and the harness memory store must
	// agree on the identifier of the same content
	{
		db, _, closeFn, err := repo.Open()
		if err != nil {
			return o, fmt.Errorf("HARNESS: %v", err)
		}
		com, err := objects.GetCommit(db, head1)
		closeFn()
		if err != nil {
			return o, fmt.Errorf("head commit unreadable: %v", err)
		}
		mem := stores.NewMem()
		msum, err := ingestx.Table(mem, permuted(c.Table, c.Perm), c.Cfg2)
		if err != nil {
			return o, fmt.Errorf("memory-store ingest: %v", err)
		}
		if !bytes.Equal(msum, com.Table) {
			return o, fmt.Errorf("`wrgl commit` on badger stored table %x, the same content ingested into a memory store (permuted rows, cfg %+v) gets %x", com.Table, c.Cfg2, msum)
		}
	}
	if _, err := repo.WriteFile("data.csv", permuted(c.Table, c.Perm).CSV(delim)); err != nil {
		return o, fmt.Errorf("HARNESS: %v", err)
	}
	// the file "was last modified a while ago": older than the cached ingest the next commit makes
	past := time.Now().Add(-time.Hour)
	os.Chtimes(fp, past, past)
	out, err := repo.Run("commit", "main", "second", "-n", fmt.Sprint(c.Cfg2.Workers), "--mem-limit", fmt.Sprint(ingestx.RunSize(rows, c.Cfg2.Spills)))
	if err != nil {
		return o, fmt.Errorf("second commit: %v (%s)", err, out)
	}
	head2, err := headOf(repo)
	if err != nil {
		return o, err
	}
	if !bytes.Equal(head1, head2) {
		return o, fmt.Errorf("re-committing the same rows (permuted, cfg %+v) moved the branch: %x -> %x; output %q", c.Cfg2, head1, head2, out)
	}
	if !strings.Contains(out, "hasn't changed") {
		return o, fmt.Errorf("unchanged data not reported as unchanged: %q", out)
	}
	// same file, other key order: identity depends on the key choice, so the branch must move to
	// the table that ingesting the rows under the new key order gives
	if len(c.Table.PK) >= 2 {
		rev := permuted(c.Table, c.Perm)
		rev.PK = append([]int{}, c.Table.PK...)
		for i, j := 0, len(rev.PK)-1; i < j; i, j = i+1, j-1 {
			rev.PK[i], rev.PK[j] = rev.PK[j], rev.PK[i]
		}
		if out, err := repo.Run("config", "set", "branch.main.primaryKey", strings.Join(rev.PKNames(), ",")); err != nil {
			return o, fmt.Errorf("HARNESS: config set primaryKey: %v (%s)", err, out)
		}
		out, err := repo.Run("commit", "main", "key order changed", "-n", fmt.Sprint(c.Cfg2.Workers), "--mem-limit", fmt.Sprint(ingestx.RunSize(rows, c.Cfg2.Spills)))
		if err != nil {
			return o, fmt.Errorf("commit after changing the key order: %v (%s)", err, out)
		}
		headK, err := headOf(repo)
		if err != nil {
			return o, err
		}
		db, _, closeFn, err := repo.Open()
		if err != nil {
			return o, fmt.Errorf("HARNESS: %v", err)
		}
		comK, cerr := objects.GetCommit(db, headK)
		closeFn()
		if cerr != nil {
			return o, fmt.Errorf("head commit unreadable: %v", cerr)
		}
		mem := stores.NewMem()
		want, err := ingestx.Table(mem, rev, c.Cfg2)
		if err != nil {
			return o, fmt.Errorf("memory-store ingest: %v", err)
		}
		if !bytes.Equal(comK.Table, want) {
			return o, fmt.Errorf("branch.primaryKey changed from %q to %q (same file): `wrgl commit` left the branch on table %x (output %q), the rows keyed by the new order are table %x", c.Table.PKNames(), rev.PKNames(), comK.Table, strings.TrimSpace(out), want)
		}
		head2 = headK
		o.Class("key-order-changed")
	}
	// the other direction through the same path: editing the branch file right away (same second
	// or not) must be noticed - one more row is other content, so the branch moves to a new table
	edited := permuted(c.Table, c.Perm)
	extra := make([]gen.Cell, len(edited.Cols))
	for i := range extra {
		extra[i] = gen.Cell(fmt.Sprintf("zz-new-row-%d", i))
	}
	edited.Rows = append(append([][]gen.Cell{}, edited.Rows...), extra)
	if _, err := repo.WriteFile("data.csv", edited.CSV(delim)); err != nil {
		return o, fmt.Errorf("HARNESS: %v", err)
	}
	out, err = repo.Run("commit", "main", "third", "-n", fmt.Sprint(c.Cfg2.Workers), "--mem-limit", fmt.Sprint(ingestx.RunSize(rows, c.Cfg2.Spills)))
	if err != nil {
		return o, fmt.Errorf("third commit: %v (%s)", err, out)
	}
	head3, err := headOf(repo)
	if err != nil {
		return o, err
	}
	if bytes.Equal(head3, head2) {
		return o, fmt.Errorf("the branch file got one more row but `wrgl commit` did not move the branch; output %q", out)
	}
	{
		db, _, closeFn, err := repo.Open()
		if err != nil {
			return o, fmt.Errorf("HARNESS: %v", err)
		}
		c2, err2 := objects.GetCommit(db, head2)
		c3, err3 := objects.GetCommit(db, head3)
		closeFn()
		if err2 != nil || err3 != nil {
			return o, fmt.Errorf("head commits unreadable: %v %v", err2, err3)
		}
		if bytes.Equal(c2.Table, c3.Table) {
			return o, fmt.Errorf("tables differing by one appended row share the identifier %x", c2.Table)
		}
	}
	o.NonTrivial = len(rows) >= 2
	o.Class("blocks=%d", (len(rows)+254)/255)
	return o, nil
}

func headOf(repo *cli.Repo) ([]byte, error) {
	_, rs, closeFn, err := repo.Open()
	if err != nil {
		return nil, fmt.Errorf("HARNESS: %v", err)
	}
	defer closeFn()
	return ref.GetHead(rs, "main")
}

func TestReplay(t *testing.T) { evid.Replay(t) }

// logical returns a canonical string of the table's logical content: header, key and the sorted set
// of rows as encoding/csv reads them back ("" when keys are not unique, which never equals).
func logical(t gen.Table, cfg ingestx.Config) string {
	cols, rows, err := gen.ParseCSV(t.CSV(cfg.Rune()), cfg.Rune())
	if err != nil {
		return "unparsable"
	}
	var b strings.Builder
	b.WriteString(model.TupleID(cols))
	fmt.Fprintf(&b, "|%v|", t.PK)
	for _, g := range model.Canon(rows, t.PK) {
		// with duplicate keys the surviving representative is unspecified: make such tables
		// compare equal to nothing by including every candidate
		seen := map[string]bool{}
		for _, r := range g.Rows {
			id := model.TupleID(r)
			if !seen[id] {
				seen[id] = true
				b.WriteString(id)
				b.WriteString(";")
			}
		}
		b.WriteString("/")
	}
	return b.String()
}
