// C03 — every stored table is structurally sound and its indices agree with its rows.
package c03

import (
	"bytes"
	"context"
	"fmt"
	"testing"
	"time"

	"github.com/go-logr/logr"
	"github.com/wrgl/wrgl/pkg/conf"
	"github.com/wrgl/wrgl/pkg/doctor"
	"github.com/wrgl/wrgl/pkg/objects"
	"github.com/wrgl/wrgl/pkg/ref"
	"pgregory.net/rapid"

	"verifharness/internal/evid"
	"verifharness/internal/gen"
	"verifharness/internal/ingestx"
	"verifharness/internal/model"
	"verifharness/internal/stores"
	"verifharness/internal/tblcheck"
)

func TestMain(m *testing.M) { evid.Main("C03", m) }

type Case struct {
	Table gen.Table      `json:"table"`
	Cfg   ingestx.Config `json:"cfg"`
}

var subIngest = evid.Register("ingest", runIngest)

func TestPropIngestProducer(t *testing.T) {
	rapid.Check(t, func(t *rapid.T) {
		c := Case{
			Table: gen.GenTable(t, gen.TableOpts{MaxCols: 5, MaxRows: evid.Scale(800, 1100), Boundary: true, MaxBig: 3}, "t"),
			Cfg:   ingestx.GenConfig(t, "cfg"),
		}
		subIngest.Check(t, c)
	})
}

func soundAndHealthy(db objects.Store, sum []byte) ([][]string, error) {
	rows, err := tblcheck.Validate(db, sum)
	if err != nil {
		return rows, err
	}
	issues, err := tblcheck.Diagnose(db, sum)
	if err != nil {
		return rows, err
	}
	if len(issues) > 0 {
		return rows, fmt.Errorf("the repository's own diagnosis reports an issue for a sound table: %v", issues)
	}
	return rows, nil
}

func runIngest(c Case) (o evid.Outcome, err error) {
	db := stores.NewMem()
	sum, err := ingestx.Table(db, c.Table, c.Cfg)
	if err != nil {
		return o, fmt.Errorf("IngestTable: %v", err)
	}
	rows, err := soundAndHealthy(db, sum)
	if err != nil {
		return o, err
	}
	n := len(rows)
	o.NonTrivial = n > 255 || n == 254 || n == 255 || n == 256
	o.Class("blocks=%d", (n+254)/255)
	if n%255 == 0 && n > 0 {
		o.Class("exact-multiple-of-255")
	}
	if len(rows) < len(c.Table.Rows) {
		o.Class("duplicate-keys")
	}
	return o, nil
}

// ---- doctor re-ingest producer -------------------------------------------------------------------

// DocCase: a deliberately defective table (duplicate rows and a wrong row count, written with
// wrgl's own block writer) is put behind a ref; Diagnose must flag it, Resolve must replace it by a
// table that satisfies C03 and holds the distinct rows.
type DocCase struct {
	Table  gen.Table `json:"table"`
	Defect string    `json:"defect"` // duprows | rowscount
	At     int       `json:"at"`
}

var subDoctor = evid.Register("doctor-resolve", runDoctor)

func TestPropDoctorProducer(t *testing.T) {
	rapid.Check(t, func(t *rapid.T) {
		tb := gen.GenTable(t, gen.TableOpts{MaxCols: 4, MaxRows: evid.Scale(520, 800), Boundary: true, ForceUnique: true, ForcePK: true, NoSpecial: true}, "t")
		if len(tb.Rows) == 0 {
			tb.Rows = append(tb.Rows, make([]gen.Cell, len(tb.Cols)))
			for i := range tb.Rows[0] {
				tb.Rows[0][i] = "x"
			}
		}
		c := DocCase{Table: tb, Defect: rapid.SampledFrom([]string{"duprows", "rowscount"}).Draw(t, "defect"), At: rapid.IntRange(0, len(tb.Rows)-1).Draw(t, "at")}
		subDoctor.Check(t, c)
	})
}

// writeDefective stores the table by hand, the way TestDiagnose-style fixtures do.
func writeDefective(db objects.Store, c DocCase) ([]byte, [][]string, error) {
	pk := c.Table.PK
	groups := model.Canon(gen.Rows(c.Table.Rows), pk)
	var rows [][]string
	for _, g := range groups {
		rows = append(rows, g.Rows[0])
	}
	distinct := rows
	stored := rows
	if c.Defect == "duprows" {
		at := c.At % len(rows)
		stored = append(append(append([][]string{}, rows[:at+1]...), rows[at]), rows[at+1:]...)
	}
	tbl := objects.NewTable(c.Table.Cols, c.Table.PKu32())
	enc := objects.NewStrListEncoder(true)
	var bb []byte
	for off := 0; off < len(stored); off += 255 {
		end := off + 255
		if end > len(stored) {
			end = len(stored)
		}
		var buf bytes.Buffer
		if _, err := objects.WriteBlockTo(enc, &buf, stored[off:end]); err != nil {
			return nil, nil, err
		}
		var sum []byte
		var err error
		sum, bb, err = objects.SaveBlock(db, bb, buf.Bytes())
		if err != nil {
			return nil, nil, err
		}
		idx, err := objects.IndexBlock(objects.NewStrListEncoder(true), model.NewHash(), stored[off:end], tbl.PK)
		if err != nil {
			return nil, nil, err
		}
		buf.Reset()
		idx.WriteTo(&buf)
		isum, _, err := objects.SaveBlockIndex(db, nil, buf.Bytes())
		if err != nil {
			return nil, nil, err
		}
		tbl.Blocks = append(tbl.Blocks, sum)
		tbl.BlockIndices = append(tbl.BlockIndices, isum)
	}
	tbl.RowsCount = uint32(len(stored))
	if c.Defect == "rowscount" {
		// claim one row more than present while keeping the block count consistent
		if len(stored)%255 != 0 {
			tbl.RowsCount++
		} else {
			tbl.RowsCount--
		}
	}
	var buf bytes.Buffer
	if _, err := tbl.WriteTo(&buf); err != nil {
		return nil, nil, err
	}
	sum, err := objects.SaveTable(db, buf.Bytes())
	return sum, distinct, err
}

func runDoctor(c DocCase) (o evid.Outcome, err error) {
	db := stores.NewMem()
	badSum, distinct, err := writeDefective(db, c)
	if err != nil {
		return o, fmt.Errorf("HARNESS: %v", err)
	}
	rs, _, closeFn, err := stores.NewRefStore()
	if err != nil {
		return o, fmt.Errorf("HARNESS: %v", err)
	}
	defer closeFn()
	com, err := stores.SaveCommit(db, badSum, nil, time.Unix(1700000000, 0), "bad")
	if err != nil {
		return o, fmt.Errorf("HARNESS: %v", err)
	}
	if err := ref.CommitHead(rs, "main", com, &objects.Commit{AuthorName: "v", AuthorEmail: "v@x", Message: "bad"}, nil); err != nil {
		return o, fmt.Errorf("HARNESS: %v", err)
	}
	d := doctor.NewDoctor(db, rs, conf.User{Name: "v", Email: "v@x"}, logr.Discard())
	ch, errCh, err := d.Diagnose(context.Background(), nil, nil, nil)
	if err != nil {
		return o, fmt.Errorf("Diagnose: %v", err)
	}
	var issues []*doctor.Issue
	for ri := range ch {
		issues = append(issues, ri.Issues...)
	}
	if e, ok := <-errCh; ok && e != nil {
		return o, fmt.Errorf("Diagnose: %v", e)
	}
	o.Class("defect=%s", c.Defect)
	if len(issues) == 0 {
		return o, fmt.Errorf("doctor reports no issue for a table with defect %q", c.Defect)
	}
	if err := d.Resolve(issues); err != nil {
		return o, fmt.Errorf("Resolve: %v", err)
	}
	head, err := ref.GetHead(rs, "main")
	if err != nil {
		return o, fmt.Errorf("after Resolve the branch is gone: %v", err)
	}
	nc, err := objects.GetCommit(db, head)
	if err != nil {
		return o, fmt.Errorf("after Resolve the branch points at an unreadable commit: %v", err)
	}
	if bytes.Equal(nc.Table, badSum) {
		return o, fmt.Errorf("Resolve kept the defective table")
	}
	rows, err := tblcheck.Validate(db, nc.Table)
	if err != nil {
		return o, fmt.Errorf("re-ingested table is not sound: %v", err)
	}
	if len(rows) != len(distinct) {
		return o, fmt.Errorf("re-ingested table has %d rows, the defective one held %d distinct rows", len(rows), len(distinct))
	}
	for i := range rows {
		if !model.RowsEqual(rows[i], distinct[i]) {
			return o, fmt.Errorf("re-ingested row %d = %q, want %q", i, rows[i], distinct[i])
		}
	}
	if iss, err := tblcheck.Diagnose(db, nc.Table); err != nil || len(iss) > 0 {
		return o, fmt.Errorf("re-ingested table still has issues: %v %v", iss, err)
	}
	o.NonTrivial = true
	o.Class("blocks=%d", (len(rows)+254)/255)
	return o, nil
}

func TestReplay(t *testing.T) { evid.Replay(t) }
