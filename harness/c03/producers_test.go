package c03

import (
	"fmt"
	"testing"

	"github.com/wrgl/wrgl/pkg/objects"
	"pgregory.net/rapid"

	"verifharness/internal/evid"
	"verifharness/internal/gen"
	"verifharness/internal/ingestx"
	"verifharness/internal/mergex"
	"verifharness/internal/stores"
	"verifharness/internal/xfer"
)

// ---- receiver producer: tables that travelled through ObjectSender -> packfile -> ObjectReceiver ---

type RecvCase struct {
	Tables  []gen.Table `json:"tables"`
	MaxSize uint64      `json:"max_size"`
}

var subRecv = evid.Register("receiver", runRecv)

func TestPropReceiverProducer(t *testing.T) {
	rapid.Check(t, func(t *rapid.T) {
		c := RecvCase{MaxSize: rapid.SampledFrom([]uint64{1, 500, 0}).Draw(t, "max")}
		for i, n := 0, rapid.IntRange(1, 3).Draw(t, "ntables"); i < n; i++ {
			c.Tables = append(c.Tables, gen.GenTable(t, gen.TableOpts{MaxCols: 4, MaxRows: evid.Scale(600, 800), Boundary: true, MaxBig: 1, ForceUnique: rapid.Bool().Draw(t, "unique")}, fmt.Sprintf("t%d", i)))
		}
		subRecv.Check(t, c)
	})
}

func runRecv(c RecvCase) (o evid.Outcome, err error) {
	src := stores.NewMem()
	var tsums [][]byte
	d := gen.DAG{}
	for i, tb := range c.Tables {
		s, err := ingestx.Simple(src, tb)
		if err != nil {
			return o, fmt.Errorf("HARNESS: ingest: %v", err)
		}
		tsums = append(tsums, s)
		nd := gen.Node{Parents: []int{}, Time: 1600000000 + int64(i), Table: i}
		if i > 0 {
			nd.Parents = []int{i - 1}
		}
		d.Nodes = append(d.Nodes, nd)
	}
	sums, err := stores.BuildHistory(src, d, tsums)
	if err != nil {
		return o, fmt.Errorf("HARNESS: %v", err)
	}
	var toSend []*objects.Commit
	tables := map[string]struct{}{}
	for i, s := range sums {
		com, _ := objects.GetCommit(src, s)
		toSend = append(toSend, com)
		tables[string(tsums[i])] = struct{}{}
	}
	dst := stores.NewMem()
	if _, err := xfer.Send(src, dst, toSend, tables, nil, c.MaxSize, sums); err != nil {
		return o, err
	}
	maxRows := 0
	for _, ts := range tsums {
		rows, err := soundAndHealthy(dst, ts)
		if err != nil {
			return o, fmt.Errorf("received table: %v", err)
		}
		if len(rows) > maxRows {
			maxRows = len(rows)
		}
	}
	o.NonTrivial = true
	o.Class("blocks=%d", (maxRows+254)/255)
	return o, nil
}

// ---- merge producer: results of auto-resolvable three-way merges --------------------------------

type MergeCase struct {
	Base  gen.Table `json:"base"`
	EditA []int     `json:"edit_a"` // row numbers whose last non-key cell branch A changes
	EditB []int     `json:"edit_b"` // ... branch B (made disjoint from A)
	DelB  []int     `json:"del_b"`
}

var subMerge = evid.Register("merge-result", runMerge)

func TestPropMergeProducer(t *testing.T) {
	rapid.Check(t, func(t *rapid.T) {
		tb := gen.GenTable(t, gen.TableOpts{MaxCols: 4, MaxRows: evid.Scale(600, 800), Boundary: true, ForceUnique: true, ForcePK: true, NoSpecial: true, PreferLarge: true}, "base")
		c := MergeCase{Base: tb}
		n := len(tb.Rows)
		if n > 0 {
			for i, k := 0, rapid.IntRange(0, 4).Draw(t, "na"); i < k; i++ {
				c.EditA = append(c.EditA, rapid.IntRange(0, n-1).Draw(t, "ea"))
			}
			for i, k := 0, rapid.IntRange(0, 4).Draw(t, "nb"); i < k; i++ {
				c.EditB = append(c.EditB, rapid.IntRange(0, n-1).Draw(t, "eb"))
			}
			for i, k := 0, rapid.IntRange(0, 3).Draw(t, "nd"); i < k; i++ {
				c.DelB = append(c.DelB, rapid.IntRange(0, n-1).Draw(t, "db"))
			}
		}
		subMerge.Check(t, c)
	})
}

func runMerge(c MergeCase) (o evid.Outcome, err error) {
	isKey := map[int]bool{}
	for _, k := range c.Base.PK {
		isKey[k] = true
	}
	col := -1
	for i := range c.Base.Cols {
		if !isKey[i] {
			col = i
		}
	}
	clone := func() gen.Table {
		out := gen.Table{Cols: c.Base.Cols, PK: c.Base.PK}
		for _, r := range c.Base.Rows {
			out.Rows = append(out.Rows, append([]gen.Cell{}, r...))
		}
		if out.Rows == nil {
			out.Rows = [][]gen.Cell{}
		}
		return out
	}
	a, b := clone(), clone()
	touchedA := map[int]bool{}
	if col >= 0 {
		for _, r := range c.EditA {
			a.Rows[r][col] = "edited-by-A"
			touchedA[r] = true
		}
		for _, r := range c.EditB {
			if !touchedA[r] {
				b.Rows[r][col] = "edited-by-B"
			}
		}
	}
	del := map[int]bool{}
	for _, r := range c.DelB {
		if !touchedA[r] {
			del[r] = true
		}
	}
	var rowsB [][]gen.Cell
	for i, r := range b.Rows {
		if !del[i] {
			rowsB = append(rowsB, r)
		}
	}
	if rowsB == nil {
		rowsB = [][]gen.Cell{}
	}
	b.Rows = rowsB
	db := stores.NewMem()
	bs, err := ingestx.Simple(db, c.Base)
	if err != nil {
		return o, fmt.Errorf("HARNESS: %v", err)
	}
	as, err := ingestx.Simple(db, a)
	if err != nil {
		return o, fmt.Errorf("HARNESS: %v", err)
	}
	bsum, err := ingestx.Simple(db, b)
	if err != nil {
		return o, fmt.Errorf("HARNESS: %v", err)
	}
	res, err := mergex.Run(db, bs, [][]byte{as, bsum}, "blocks")
	if err != nil {
		return o, err
	}
	if len(res.Unresolved) != 0 {
		return o, fmt.Errorf("disjoint edits produced %d conflicts", len(res.Unresolved))
	}
	rows, err := soundAndHealthy(db, res.TableSum)
	if err != nil {
		return o, fmt.Errorf("merge result table: %v", err)
	}
	o.NonTrivial = true
	o.Class("blocks=%d", (len(rows)+254)/255)
	return o, nil
}
