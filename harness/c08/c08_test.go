// C08 — negotiation picks a closed, parent-first commit set covering every want.
package c08

import (
	"bytes"
	"errors"
	"fmt"
	"testing"

	apiutils "github.com/wrgl/wrgl/pkg/api/utils"
	"github.com/wrgl/wrgl/pkg/objects"
	"github.com/wrgl/wrgl/pkg/ref"
	"pgregory.net/rapid"

	"verifharness/internal/evid"
	"verifharness/internal/gen"
	"verifharness/internal/model"
	"verifharness/internal/stores"
)

func TestMain(m *testing.M) { evid.Main("C08", m) }

type Case struct {
	DAG    gen.DAG `json:"dag"`
	Refs   []int   `json:"refs"`    // commits carrying a ref
	Wants  []int   `json:"wants"`   // commit index, or -1-k for an unknown hash
	Rounds [][]int `json:"rounds"`  // haves per round (same encoding)
	DoneAt int     `json:"done_at"` // index of the round sent with done=true, -1 never
	// TablesFirst: the sender asks for TablesToSend before CommitsToSend (both orders are legal;
	// the answers must not depend on it)
	TablesFirst bool `json:"tables_first,omitempty"`
	// Twice: both accessors are called a second time and the second answers are the ones checked
	Twice bool `json:"twice,omitempty"`
	Depth int  `json:"depth"`
}

var sub = evid.Register("negotiate", run)

func genCase(t *rapid.T, maxNodes int) Case {
	d := gen.GenDAG(t, gen.DAGOpts{MinNodes: 1, MaxNodes: maxNodes, MaxParents: 3, Tables: 3}, "dag")
	n := len(d.Nodes)
	for i := range d.Nodes {
		if rapid.IntRange(0, 9).Draw(t, "shallow") == 0 {
			d.Nodes[i].Shallow = true
		}
	}
	c := Case{DAG: d, Depth: rapid.SampledFrom([]int{0, 0, 1, 2, 3, 4}).Draw(t, "depth")}
	// refs: the last commit nearly always, plus a random subset
	c.Refs = []int{}
	for i := 0; i < n; i++ {
		if i == n-1 && rapid.IntRange(0, 9).Draw(t, "tipref") != 0 || rapid.IntRange(0, 4).Draw(t, "ref") == 0 {
			c.Refs = append(c.Refs, i)
		}
	}
	pick := func(label string) int {
		k := rapid.IntRange(0, 19).Draw(t, label+"kind")
		if k == 0 {
			return -1 - rapid.IntRange(0, 2).Draw(t, label+"unknown")
		}
		// prefer recent commits
		return n - 1 - rapid.IntRange(0, n-1).Draw(t, label)
	}
	nw := rapid.IntRange(1, 3).Draw(t, "nwants")
	for i := 0; i < nw; i++ {
		c.Wants = append(c.Wants, pick("want"))
	}
	nr := rapid.IntRange(1, 4).Draw(t, "nrounds")
	for r := 0; r < nr; r++ {
		nh := rapid.IntRange(0, 5).Draw(t, "nhaves")
		hs := []int{}
		for i := 0; i < nh; i++ {
			hs = append(hs, pick("have"))
		}
		c.Rounds = append(c.Rounds, hs)
	}
	c.DoneAt = rapid.IntRange(-1, nr-1).Draw(t, "doneAt")
	c.TablesFirst = rapid.Bool().Draw(t, "tablesFirst")
	c.Twice = rapid.IntRange(0, 2).Draw(t, "twice") == 0
	return c
}

func TestPropNegotiate(t *testing.T) {
	rapid.Check(t, func(t *rapid.T) { sub.Check(t, genCase(t, evid.Scale(12, 24))) })
}

func TestReplay(t *testing.T) { evid.Replay(t) }

// stacked diamonds: the history shape on which a walk without a visited set explodes
func TestPropStackedDiamonds(t *testing.T) {
	rapid.Check(t, func(t *rapid.T) {
		k := rapid.IntRange(1, evid.Scale(20, 24)).Draw(t, "diamonds")
		d := gen.DAG{Nodes: []gen.Node{{Parents: []int{}, Time: 1600000000}}}
		tip := 0
		for i := 0; i < k; i++ {
			a := len(d.Nodes)
			d.Nodes = append(d.Nodes, gen.Node{Parents: []int{tip}, Time: 1600000000 + int64(a)})
			d.Nodes = append(d.Nodes, gen.Node{Parents: []int{tip}, Time: 1600000000 + int64(a+1)})
			d.Nodes = append(d.Nodes, gen.Node{Parents: []int{a, a + 1}, Time: 1600000000 + int64(a+2)})
			tip = a + 2
		}
		c := Case{DAG: d, Refs: []int{tip}, Wants: []int{tip}, Rounds: [][]int{{}}, DoneAt: 0, Depth: rapid.SampledFrom([]int{0, 2}).Draw(t, "depth")}
		// the client's have: none, the root (below every diamond), or the tip of a diamond part
		// of the way up (a recognised have sitting above many fork-and-merge levels)
		switch rapid.IntRange(0, 3).Draw(t, "have") {
		case 1:
			c.Rounds = [][]int{{0}}
		case 2:
			c.Rounds = [][]int{{3 * rapid.IntRange(1, k).Draw(t, "haveDiamond")}}
		case 3:
			c.Rounds = [][]int{{3*rapid.IntRange(1, k).Draw(t, "haveDiamond") - 1}}
		}
		sub.Check(t, c)
	})
}

func unknownHash(k int) []byte {
	b := bytes.Repeat([]byte{0xee}, 16)
	b[15] = byte(k)
	return b
}

func run(c Case) (o evid.Outcome, err error) {
	db := stores.NewMem()
	n := len(c.DAG.Nodes)
	// table pool: fake but distinct table objects; shallow commits get a table that is not stored
	var pool [][]byte
	for i := 0; i < 3; i++ {
		s, err := objects.SaveTable(db, []byte(fmt.Sprintf("table-%d", i)))
		if err != nil {
			return o, fmt.Errorf("HARNESS: %v", err)
		}
		pool = append(pool, s)
	}
	tableOf := make([][]byte, n)
	d := gen.DAG{}
	var tables [][]byte
	for i, nd := range c.DAG.Nodes {
		x := nd
		if nd.Shallow {
			tableOf[i] = model.Sum([]byte(fmt.Sprintf("absent-table-%d", i)))
		} else {
			tableOf[i] = pool[nd.Table%3]
		}
		x.Table = i
		tables = append(tables, tableOf[i])
		d.Nodes = append(d.Nodes, x)
	}
	sums, err := stores.BuildHistory(db, d, tables)
	if err != nil {
		return o, fmt.Errorf("HARNESS: %v", err)
	}
	idx := map[string]int{}
	for i, s := range sums {
		idx[string(s)] = i
	}
	rs, _, closeFn, err := stores.NewRefStore()
	if err != nil {
		return o, fmt.Errorf("HARNESS: %v", err)
	}
	defer closeFn()
	for j, r := range c.Refs {
		name := []string{"heads/b%d", "tags/t%d", "remotes/o/r%d", "refs/custom/x%d"}[j%4]
		if err := rs.Set(fmt.Sprintf(name, j), sums[r]); err != nil {
			return o, fmt.Errorf("HARNESS: %v", err)
		}
	}
	g := model.Graph{Parents: stores.GraphOf(c.DAG)}
	reachable := g.Anc(c.Refs...)
	hashOf := func(i int) []byte {
		if i < 0 {
			return unknownHash(-1 - i)
		}
		return sums[i]
	}
	var wants [][]byte
	wantNodes := []int{}
	badWant, shallowWant := false, false
	for _, w := range c.Wants {
		wants = append(wants, hashOf(w))
		if w < 0 || !reachable[w] {
			badWant = true
		} else {
			wantNodes = append(wantNodes, w)
			if c.DAG.Nodes[w].Shallow {
				shallowWant = true
			}
		}
	}

	getsBefore := db.Gets
	finder := apiutils.NewClosedSetsFinder(db, rs, c.Depth)
	ackedAll := map[int]bool{}
	for r, hs := range c.Rounds {
		var haves [][]byte
		for _, h := range hs {
			haves = append(haves, hashOf(h))
		}
		var w [][]byte
		if r == 0 {
			w = wants
		}
		acks, err := finder.Process(w, haves, r == c.DoneAt)
		if err != nil {
			var ue *apiutils.UnrecognizedWantsError
			if r == 0 && errors.As(err, &ue) {
				if !badWant && !shallowWant {
					return o, fmt.Errorf("all wants are reachable from refs and complete, yet refused: %v", err)
				}
				commits, cerr := finder.CommitsToSend()
				if cerr != nil || len(commits) != 0 {
					return o, fmt.Errorf("wants were refused but %d commits are selected (%v)", len(commits), cerr)
				}
				o.Class("refused-wants")
				return o, nil
			}
			return o, fmt.Errorf("round %d: Process: %v", r, err)
		}
		if r == 0 && badWant {
			return o, fmt.Errorf("a want that is not reachable from any ref (or unknown) was accepted")
		}
		inHaves := map[string]bool{}
		for _, h := range haves {
			inHaves[string(h)] = true
		}
		for _, a := range acks {
			i, known := idx[string(a)]
			if !known || !inHaves[string(a)] {
				return o, fmt.Errorf("round %d: ack %x is not a known commit among the haves of this round", r, a)
			}
			ackedAll[i] = true
		}
		if r == c.DoneAt {
			break
		}
	}
	var commits []*objects.Commit
	var tablesToSend map[string]struct{}
	if c.TablesFirst {
		tablesToSend, err = finder.TablesToSend()
		if err != nil {
			return o, fmt.Errorf("TablesToSend: %v", err)
		}
		commits, err = finder.CommitsToSend()
		if err != nil {
			return o, fmt.Errorf("CommitsToSend: %v", err)
		}
	} else {
		commits, err = finder.CommitsToSend()
		if err != nil {
			return o, fmt.Errorf("CommitsToSend: %v", err)
		}
		tablesToSend, err = finder.TablesToSend()
		if err != nil {
			return o, fmt.Errorf("TablesToSend: %v", err)
		}
	}
	gets := db.Gets - getsBefore
	if c.Twice {
		// the accessors are asked a second time (a sender that logs what it is about to send, then
		// sends): what they answer then has to meet the statement just the same
		if c.TablesFirst {
			tablesToSend, err = finder.TablesToSend()
			if err == nil {
				commits, err = finder.CommitsToSend()
			}
		} else {
			commits, err = finder.CommitsToSend()
			if err == nil {
				tablesToSend, err = finder.TablesToSend()
			}
		}
		if err != nil {
			return o, fmt.Errorf("second call of CommitsToSend/TablesToSend: %v", err)
		}
		o.Class("accessors-called-twice")
	}
	commons := finder.CommonCommmits()

	commonNodes := []int{}
	for _, cm := range commons {
		i, ok := idx[string(cm)]
		if !ok {
			return o, fmt.Errorf("common commit %x is unknown", cm)
		}
		if !ackedAll[i] {
			return o, fmt.Errorf("common commit c%d was never acknowledged", i)
		}
		commonNodes = append(commonNodes, i)
	}
	ancCommons := g.Anc(commonNodes...)
	ancWants := g.Anc(wantNodes...)
	// (2) parent-first at the first occurrence, (3) nothing unreachable from the wants
	first := map[int]int{}
	for pos, cm := range commits {
		i, ok := idx[string(cm.Sum)]
		if !ok {
			// Commit.Sum may be unset by some paths; recompute from content
			var buf bytes.Buffer
			cm.WriteTo(&buf)
			i, ok = idx[string(model.Sum(buf.Bytes()))]
			if !ok {
				return o, fmt.Errorf("listed commit #%d is unknown", pos)
			}
		}
		if _, seen := first[i]; seen {
			continue
		}
		if !ancWants[i] {
			return o, fmt.Errorf("c%d is listed for sending but is not an ancestor of any want %v", i, wantNodes)
		}
		for _, p := range c.DAG.Nodes[i].Parents {
			if _, earlier := first[p]; !earlier && !ancCommons[p] {
				return o, fmt.Errorf("c%d is listed (position %d) before its parent c%d, which is neither common nor earlier in the list; list=%v commons=%v", i, pos, p, listIdx(commits, idx), commonNodes)
			}
		}
		first[i] = pos
	}
	// (1) closure
	for a := range ancWants {
		if _, sent := first[a]; !sent && !ancCommons[a] {
			return o, fmt.Errorf("c%d is an ancestor of a want but neither sent nor an ancestor of an acknowledged common commit; wants=%v list=%v commons=%v", a, wantNodes, listIdx(commits, idx), commonNodes)
		}
	}
	// (4) tables: exactly those of sent commits within depth of a want
	// Distance is counted from the wants that actually need sending, along the history that is
	// sent: a want that is itself common, or a path through an acknowledged common commit, brings
	// nothing the other side lacks. "may" uses plain distance (upper bound), "must" the distance
	// along paths that avoid acknowledged commons (lower bound).
	mayTables := map[string]bool{}
	wantTables := map[string]bool{}
	dist := bfsDist(g, wantNodes, nil)
	isCommon := map[int]bool{}
	for _, cn := range commonNodes {
		isCommon[cn] = true
	}
	distMust := bfsDist(g, wantNodes, isCommon)
	for i := range first {
		if d, ok := dist[i]; ok && (c.Depth == 0 || d < c.Depth) {
			mayTables[string(tableOf[i])] = true
		}
		if d, ok := distMust[i]; ok && (c.Depth == 0 || d < c.Depth) {
			wantTables[string(tableOf[i])] = true
		}
	}
	for tb := range tablesToSend {
		if !mayTables[tb] {
			return o, fmt.Errorf("table %x selected although no sent commit within depth %d carries it", tb, c.Depth)
		}
	}
	for tb := range wantTables {
		if _, ok := tablesToSend[tb]; !ok {
			return o, fmt.Errorf("table %x of a sent commit within depth %d of a want is not selected (sent=%v wants=%v)", []byte(tb), c.Depth, listIdx(commits, idx), wantNodes)
		}
	}
	// (7) cost: object-store reads polynomial in the history size
	bound := int64(40*n*n + 60*n + 400)
	if gets > bound {
		return o, fmt.Errorf("negotiation over a history of %d commits needed %d object reads (bound %d): %d commits listed", n, gets, bound, len(commits))
	}
	if len(commits) > len(first) {
		evid.Note("commit listed more than once")
	}
	merges, properAnc := 0, false
	for a := range ancWants {
		if len(c.DAG.Nodes[a].Parents) > 1 {
			merges++
		}
	}
	for _, cn := range commonNodes {
		for _, w := range wantNodes {
			if cn != w && ancWants[cn] {
				properAnc = true
			}
		}
	}
	o.NonTrivial = merges > 0 && properAnc && len(commits) > 0
	o.Class("depth=%d", c.Depth)
	o.Class("rounds=%d", len(c.Rounds))
	if merges > 0 {
		o.Class("merge-in-wanted-history")
	}
	if len(commonNodes) > 0 {
		o.Class("has-commons")
	}
	if len(commits) == 0 {
		o.Class("nothing-to-send")
	}
	return o, nil
}

func listIdx(commits []*objects.Commit, idx map[string]int) []int {
	out := []int{}
	for _, c := range commits {
		if i, ok := idx[string(c.Sum)]; ok {
			out = append(out, i)
		} else {
			out = append(out, -1)
		}
	}
	return out
}

func bfsDist(g model.Graph, starts []int, stop map[int]bool) map[int]int {
	dist := map[int]int{}
	q := []int{}
	for _, s := range starts {
		if stop[s] {
			continue
		}
		if _, ok := dist[s]; !ok {
			dist[s] = 0
			q = append(q, s)
		}
	}
	for len(q) > 0 {
		x := q[0]
		q = q[1:]
		for _, p := range g.Parents[x] {
			if stop[p] {
				continue
			}
			if _, ok := dist[p]; !ok {
				dist[p] = dist[x] + 1
				q = append(q, p)
			}
		}
	}
	return dist
}

var _ = ref.HeadPrefix
