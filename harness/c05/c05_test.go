// C05 — three-way merge keeps all non-conflicting changes, never silently alters data.
package c05

import (
	"fmt"
	"sort"
	"strings"
	"testing"

	"pgregory.net/rapid"

	"verifharness/internal/evid"
	"verifharness/internal/gen"
	"verifharness/internal/ingestx"
	"verifharness/internal/mergex"
	"verifharness/internal/model"
	"verifharness/internal/stores"
	"verifharness/internal/tblcheck"
)

func TestMain(m *testing.M) { evid.Main("C05", m) }

type Case struct {
	PKNames  []string    `json:"pk"`
	Base     gen.Table   `json:"base"`
	Branches []gen.Table `json:"branches"`
	Shape    string      `json:"shape"` // random | x-base | x-x | disjoint
	Tier     string      `json:"tier"`  // A (same column set) | B (column add/remove)
}

var sub = evid.Register("merge", run)

func cloneT(t gen.Table) gen.Table {
	out := gen.Table{Cols: append([]string{}, t.Cols...), PK: append([]int{}, t.PK...), Rows: make([][]gen.Cell, len(t.Rows))}
	for i, r := range t.Rows {
		out.Rows[i] = append([]gen.Cell{}, r...)
	}
	return out
}

func pkIdx(cols, pkNames []string) []int {
	out := []int{}
	for _, n := range pkNames {
		for i, c := range cols {
			if c == n {
				out = append(out, i)
			}
		}
	}
	return out
}

// permuteCols reorders the columns of t.
func permuteCols(t gen.Table, perm []int, pkNames []string) gen.Table {
	out := gen.Table{Cols: make([]string, len(t.Cols)), Rows: make([][]gen.Cell, len(t.Rows))}
	for i, p := range perm {
		out.Cols[i] = t.Cols[p]
	}
	for j, r := range t.Rows {
		nr := make([]gen.Cell, len(r))
		for i, p := range perm {
			nr[i] = r[p]
		}
		out.Rows[j] = nr
	}
	out.PK = pkIdx(out.Cols, pkNames)
	return out
}

func genCase(t *rapid.T, tierB bool) Case {
	u := gen.GenTable(t, gen.TableOpts{MaxCols: 5, MaxRows: evid.Scale(520, 800), Boundary: true, ForceUnique: true, MaxBig: 0, PreferLarge: false}, "u")
	c := Case{Base: u, PKNames: u.PKNames(), Tier: "A"}
	if tierB {
		c.Tier = "B"
	}
	keyless := len(u.PK) == 0
	n := rapid.IntRange(2, 3).Draw(t, "nbranches")
	shapes := []string{"random", "random", "x-base", "x-x", "disjoint"}
	if tierB {
		shapes = []string{"x-base", "x-x", "random"}
	}
	c.Shape = rapid.SampledFrom(shapes).Draw(t, "shape")
	isKey := map[int]bool{}
	for _, k := range u.PK {
		isKey[k] = true
	}
	nonKey := []int{}
	for i := range u.Cols {
		if !isKey[i] {
			nonKey = append(nonKey, i)
		}
	}
	branches := make([]gen.Table, n)
	for i := range branches {
		branches[i] = cloneT(u)
	}
	removedRows := make([]map[int]bool, n)
	for i := range removedRows {
		removedRows[i] = map[int]bool{}
	}
	nrows := len(u.Rows)
	// row edits on a few touched rows
	if nrows > 0 {
		touched := rapid.IntRange(0, 10).Draw(t, "touched")
		for k := 0; k < touched; k++ {
			ri := rapid.IntRange(0, nrows-1).Draw(t, "row")
			for b := 0; b < n; b++ {
				if c.Shape == "disjoint" && ri%n != b {
					continue
				}
				act := rapid.IntRange(0, 5).Draw(t, "act")
				switch {
				case act == 0:
					removedRows[b][ri] = true
				case act <= 3 && len(nonKey) > 0 && !keyless:
					col := nonKey[rapid.IntRange(0, len(nonKey)-1).Draw(t, "col")]
					branches[b].Rows[ri][col] = gen.Cell(rapid.SampledFrom([]string{"X", "Y", ""}).Draw(t, "val"))
				}
			}
		}
	}
	for b := 0; b < n; b++ {
		if len(removedRows[b]) > 0 {
			var rows [][]gen.Cell
			for i, r := range branches[b].Rows {
				if !removedRows[b][i] {
					rows = append(rows, r)
				}
			}
			if rows == nil {
				rows = [][]gen.Cell{}
			}
			branches[b].Rows = rows
		}
	}
	// added rows with keys outside the universe
	adds := rapid.IntRange(0, 3).Draw(t, "adds")
	for a := 0; a < adds; a++ {
		for b := 0; b < n; b++ {
			if c.Shape == "disjoint" && a%n != b {
				continue
			}
			v := rapid.IntRange(0, 2).Draw(t, "addvariant")
			if v == 2 {
				continue
			}
			row := make([]gen.Cell, len(u.Cols))
			for ci := range row {
				if keyless {
					row[ci] = gen.Cell(fmt.Sprintf("zz-new%d-%d", a, ci))
				} else if isKey[ci] {
					row[ci] = gen.Cell(fmt.Sprintf("zz-new%d", a))
				} else {
					row[ci] = gen.Cell(fmt.Sprintf("add%d", v))
				}
			}
			branches[b].Rows = append(branches[b].Rows, row)
		}
	}
	switch c.Shape {
	case "x-base":
		for b := 1; b < n; b++ {
			branches[b] = cloneT(u)
		}
	case "x-x":
		for b := 1; b < n; b++ {
			branches[b] = cloneT(branches[0])
		}
	}
	// column operations
	if !keyless {
		for b := 0; b < n; b++ {
			if c.Shape != "random" && b > 0 {
				if c.Shape == "x-x" {
					branches[b] = cloneT(branches[0])
				}
				continue
			}
			op := rapid.IntRange(0, 4).Draw(t, "colop")
			switch {
			case op == 1 && len(u.Cols) > 1:
				idx := make([]int, len(branches[b].Cols))
				for i := range idx {
					idx[i] = i
				}
				branches[b] = permuteCols(branches[b], rapid.Permutation(idx).Draw(t, "perm"), c.PKNames)
			case op == 2 && tierB:
				name := rapid.SampledFrom([]string{"nc1", "nc2"}).Draw(t, "newcol")
				branches[b].Cols = append(branches[b].Cols, name)
				for i := range branches[b].Rows {
					branches[b].Rows[i] = append(branches[b].Rows[i], gen.Cell(fmt.Sprintf("n%d", i%2)))
				}
			case op == 4 && tierB && len(nonKey) > 0:
				// rename a non-key column (for the merge: one column removed, one added)
				ren := nonKey[rapid.IntRange(0, len(nonKey)-1).Draw(t, "rencol")]
				name := u.Cols[ren]
				for i, cn := range branches[b].Cols {
					if cn == name {
						cols := append([]string{}, branches[b].Cols...)
						cols[i] = name + "_renamed"
						branches[b].Cols = cols
					}
				}
			case op == 3 && tierB && len(nonKey) > 0:
				drop := nonKey[rapid.IntRange(0, len(nonKey)-1).Draw(t, "dropcol")]
				name := u.Cols[drop]
				pos := -1
				for i, cn := range branches[b].Cols {
					if cn == name {
						pos = i
					}
				}
				if pos >= 0 && len(branches[b].Cols) > 1 {
					branches[b].Cols = append(append([]string{}, branches[b].Cols[:pos]...), branches[b].Cols[pos+1:]...)
					for i, r := range branches[b].Rows {
						branches[b].Rows[i] = append(append([]gen.Cell{}, r[:pos]...), r[pos+1:]...)
					}
					branches[b].PK = pkIdx(branches[b].Cols, c.PKNames)
				}
			}
		}
		if c.Shape == "x-x" {
			for b := 1; b < n; b++ {
				branches[b] = cloneT(branches[0])
			}
		}
	}
	// templates on top of the random script (random shape, keyed tables, two non-key columns)
	colPos := func(tb gen.Table, name string) int {
		for i, cn := range tb.Cols {
			if cn == name {
				return i
			}
		}
		return -1
	}
	if !keyless && c.Shape == "random" && len(nonKey) >= 2 {
		switch rapid.IntRange(0, 5).Draw(t, "template") {
		case 0:
			// one branch exchanges the values of two columns in a few rows, another branch exchanges
			// the positions of those two columns: the edited rows of the first and the untouched rows
			// of the second then consist of the same cells in the same order
			pn, qn := u.Cols[nonKey[0]], u.Cols[nonKey[len(nonKey)-1]]
			ea, eb := rapid.IntRange(0, n-1).Draw(t, "swapEditor"), rapid.IntRange(0, n-1).Draw(t, "swapMover")
			if ea != eb && colPos(branches[ea], pn) >= 0 && colPos(branches[ea], qn) >= 0 && colPos(branches[eb], pn) >= 0 && colPos(branches[eb], qn) >= 0 {
				p, q := colPos(branches[ea], pn), colPos(branches[ea], qn)
				done := 0
				for i := range branches[ea].Rows {
					r := branches[ea].Rows[i]
					if string(r[p]) != string(r[q]) && done < 5 {
						r[p], r[q] = r[q], r[p]
						done++
					}
				}
				perm := make([]int, len(branches[eb].Cols))
				for i := range perm {
					perm[i] = i
				}
				mp, mq := colPos(branches[eb], pn), colPos(branches[eb], qn)
				perm[mp], perm[mq] = mq, mp
				branches[eb] = permuteCols(branches[eb], perm, c.PKNames)
			}
		case 1:
			if tierB {
				// the last-listed branch reverses its columns and adds two new ones after two
				// different existing columns
				b := n - 1
				tb := branches[b]
				if len(tb.Cols) >= 3 && colPos(tb, "ncA") < 0 {
					perm := make([]int, len(tb.Cols))
					for i := range perm {
						perm[i] = len(tb.Cols) - 1 - i
					}
					tb = permuteCols(tb, perm, c.PKNames)
					ins := func(tb gen.Table, after int, name string) gen.Table {
						out := gen.Table{Cols: append(append(append([]string{}, tb.Cols[:after+1]...), name), tb.Cols[after+1:]...), Rows: make([][]gen.Cell, len(tb.Rows))}
						for i, r := range tb.Rows {
							out.Rows[i] = append(append(append([]gen.Cell{}, r[:after+1]...), gen.Cell(fmt.Sprintf("n%d", i%2))), r[after+1:]...)
						}
						return out
					}
					i1 := rapid.IntRange(0, len(tb.Cols)-3).Draw(t, "insAfter1")
					tb = ins(tb, i1, "ncA")
					i2 := rapid.IntRange(i1+2, len(tb.Cols)-1).Draw(t, "insAfter2")
					tb = ins(tb, i2, "ncB")
					branches[b] = tb
				}
			}
		}
	}
	for b := range branches {
		branches[b].PK = pkIdx(branches[b].Cols, c.PKNames)
	}
	c.Branches = branches
	return c
}

func TestPropMergeTierA(t *testing.T) {
	rapid.Check(t, func(t *rapid.T) { sub.Check(t, genCase(t, false)) })
}

func TestPropMergeTierB(t *testing.T) {
	rapid.Check(t, func(t *rapid.T) { sub.Check(t, genCase(t, true)) })
}

func TestReplay(t *testing.T) { evid.Replay(t) }

func sameColumnSet(c Case) bool {
	set := func(cols []string) string {
		s := append([]string{}, cols...)
		sort.Strings(s)
		return strings.Join(s, "\x00")
	}
	for _, b := range c.Branches {
		if set(b.Cols) != set(c.Base.Cols) {
			return false
		}
	}
	return true
}

// byName converts a result row to a map column name -> value.
func byName(cols []string, row []string) (map[string]string, error) {
	if len(row) != len(cols) {
		return nil, fmt.Errorf("row has %d cells under %d columns %q: %q", len(row), len(cols), cols, row)
	}
	m := map[string]string{}
	for i, c := range cols {
		m[c] = row[i]
	}
	return m, nil
}

func keyOfMap(m map[string]string, cols []string, pkNames []string) []string {
	if len(pkNames) == 0 {
		out := make([]string, len(cols))
		for i, c := range cols {
			out[i] = m[c]
		}
		return out
	}
	out := make([]string, len(pkNames))
	for i, n := range pkNames {
		out[i] = m[n]
	}
	return out
}

type outcome struct {
	cols       []string
	rows       map[string]map[string]string // TupleID(key) -> row by name
	order      [][]string                   // keys in output order
	unresolved map[string]bool              // key hash
}

func runOnce(db *stores.Mem, c Case, baseSum []byte, sums [][]byte, mode string) (*outcome, error) {
	res, err := mergex.Run(db, baseSum, sums, mode)
	if err != nil {
		return nil, err
	}
	rows := res.Rows
	if mode == "blocks" {
		rows, err = tblcheck.Validate(db, res.TableSum)
		if err != nil {
			return nil, fmt.Errorf("merge result table is not sound (C03): %v", err)
		}
	}
	if !model.RowsEqual(res.PK, c.PKNames) {
		return nil, fmt.Errorf("merge result key %q, inputs have key %q", res.PK, c.PKNames)
	}
	o := &outcome{cols: res.Columns, rows: map[string]map[string]string{}, unresolved: map[string]bool{}}
	for k := range res.Unresolved {
		o.unresolved[k] = true
	}
	for i, r := range rows {
		m, err := byName(res.Columns, r)
		if err != nil {
			return nil, fmt.Errorf("%s output row %d: %v", mode, i, err)
		}
		key := keyOfMap(m, res.Columns, c.PKNames)
		id := model.TupleID(key)
		if _, dup := o.rows[id]; dup {
			return nil, fmt.Errorf("%s output has key %q twice", mode, key)
		}
		o.rows[id] = m
		o.order = append(o.order, key)
	}
	for i := 1; i < len(o.order); i++ {
		if model.CmpTuple(o.order[i-1], o.order[i]) >= 0 {
			return nil, fmt.Errorf("%s output not in key order at row %d: %q then %q", mode, i, o.order[i-1], o.order[i])
		}
	}
	return o, nil
}

func sameOutcome(a, b *outcome) error {
	if len(a.rows) != len(b.rows) {
		for id, r := range a.rows {
			if _, ok := b.rows[id]; !ok {
				return fmt.Errorf("%d rows vs %d rows; e.g. %v only in the first (unresolved %d vs %d)", len(a.rows), len(b.rows), r, len(a.unresolved), len(b.unresolved))
			}
		}
		for id, r := range b.rows {
			if _, ok := a.rows[id]; !ok {
				return fmt.Errorf("%d rows vs %d rows; e.g. %v only in the second (unresolved %d vs %d)", len(a.rows), len(b.rows), r, len(a.unresolved), len(b.unresolved))
			}
		}
	}
	for id, ra := range a.rows {
		rb, ok := b.rows[id]
		if !ok {
			return fmt.Errorf("key of row %v present in one result only", ra)
		}
		for c, v := range ra {
			if w, ok := rb[c]; !ok || w != v {
				return fmt.Errorf("row differs in column %q: %q vs %q (%v vs %v)", c, v, w, ra, rb)
			}
		}
		if len(ra) != len(rb) {
			return fmt.Errorf("rows have different column sets: %v vs %v", ra, rb)
		}
	}
	if len(a.unresolved) != len(b.unresolved) {
		return fmt.Errorf("%d unresolved keys vs %d", len(a.unresolved), len(b.unresolved))
	}
	for k := range a.unresolved {
		if !b.unresolved[k] {
			return fmt.Errorf("unresolved key sets differ")
		}
	}
	return nil
}

func equalsTable(o *outcome, t gen.Table, pkNames []string) error {
	x := toTab(t, pkNames)
	if len(o.rows) != len(x.rows) {
		return fmt.Errorf("result has %d rows, expected %d", len(o.rows), len(x.rows))
	}
	if len(o.cols) != len(t.Cols) {
		return fmt.Errorf("result columns %q, expected the columns %q", o.cols, t.Cols)
	}
	for id, want := range x.rows {
		got, ok := o.rows[id]
		if !ok {
			return fmt.Errorf("row with key %q missing from the result", x.keys[id])
		}
		for cn, v := range want {
			if g, ok := got[cn]; !ok || g != v {
				return fmt.Errorf("key %q column %q: result %q, expected %q", x.keys[id], cn, g, v)
			}
		}
	}
	return nil
}

func run(c Case) (o evid.Outcome, err error) {
	db := stores.NewMem()
	baseSum, err := ingestx.Simple(db, c.Base)
	if err != nil {
		return o, fmt.Errorf("HARNESS: ingest base: %v", err)
	}
	sums := make([][]byte, len(c.Branches))
	for i, b := range c.Branches {
		sums[i], err = ingestx.Simple(db, b)
		if err != nil {
			return o, fmt.Errorf("HARNESS: ingest branch %d: %v", i, err)
		}
	}
	// the model works on the rows as stored (encoding/csv drops blank lines etc.), so that an
	// ingest artefact cannot be blamed on merge
	if c.Base, err = readBack(db, baseSum); err != nil {
		return o, err
	}
	c.Branches = append([]gen.Table{}, c.Branches...)
	for i := range sums {
		if c.Branches[i], err = readBack(db, sums[i]); err != nil {
			return o, err
		}
	}
	rowsOut, err := runOnce(db, c, baseSum, sums, "rows")
	if err != nil {
		return o, err
	}
	blocksOut, err := runOnce(db, c, baseSum, sums, "blocks")
	if err != nil {
		return o, err
	}
	if err := sameOutcome(rowsOut, blocksOut); err != nil {
		return o, fmt.Errorf("SortedRows and SortedBlocks results differ: %v", err)
	}
	// branch order must not matter (up to the position of new columns: rows are compared by name)
	rev := make([][]byte, len(sums))
	for i := range sums {
		rev[len(sums)-1-i] = sums[i]
	}
	revOut, err := runOnce(db, c, baseSum, rev, "rows")
	if err != nil {
		return o, fmt.Errorf("with branches listed in reverse: %v", err)
	}
	if err := sameOutcome(rowsOut, revOut); err != nil {
		return o, fmt.Errorf("outcome depends on the order of the branches: %v", err)
	}

	switch c.Shape {
	case "x-base", "x-x":
		if len(rowsOut.unresolved) != 0 {
			return o, fmt.Errorf("merge(base; X, %s) reported %d conflicts", c.Shape[2:], len(rowsOut.unresolved))
		}
		if err := equalsTable(rowsOut, c.Branches[0], c.PKNames); err != nil {
			return o, fmt.Errorf("merge(base; X, %s) != X: %v", c.Shape[2:], err)
		}
	}

	nConf, untouched, touched := 0, 0, 0
	if sameColumnSet(c) {
		resultCols, exp := mergeModel(c.Base, c.Branches, c.PKNames)
		if len(rowsOut.cols) != len(resultCols) {
			return o, fmt.Errorf("result columns %q, expected the set %v", rowsOut.cols, resultCols)
		}
		bt := toTab(c.Base, c.PKNames)
		for _, id := range sortedIDs(exp) {
			e := exp[id]
			kh := string(model.Sum(model.EncodeStrList(e.key)))
			if len(c.PKNames) == 0 {
				// keyless: the key hash is the hash of the whole row in the table's layout
				kh = ""
			}
			got, present := rowsOut.rows[id]
			unres := kh != "" && rowsOut.unresolved[kh]
			switch e.status {
			case "conflict":
				nConf++
				if kh != "" && !unres {
					return o, fmt.Errorf("key %q: branches conflict but no conflict was reported (result row: %v)", e.key, got)
				}
				if present {
					return o, fmt.Errorf("key %q: conflicting row was discarded by the caller but is in the result: %v", e.key, got)
				}
			case "removed":
				touched++
				if unres {
					return o, fmt.Errorf("key %q: removed without conflicting edits, yet reported as conflict", e.key)
				}
				if present {
					return o, fmt.Errorf("key %q: removed by a branch (others unchanged) but still in the result: %v", e.key, got)
				}
			case "row":
				if unres {
					return o, fmt.Errorf("key %q: spurious conflict, expected %v", e.key, e.row)
				}
				if !present {
					return o, fmt.Errorf("key %q: missing from the result, expected %v", e.key, e.row)
				}
				for cn, v := range e.row {
					if got[cn] != v {
						return o, fmt.Errorf("key %q column %q: result %q, expected %q (result row %v)", e.key, cn, got[cn], v, got)
					}
				}
				if br, ok := bt.rows[id]; ok && mapsEqual(br, e.row) {
					untouched++
				} else {
					touched++
				}
			}
		}
		for id, r := range rowsOut.rows {
			if _, ok := exp[id]; !ok {
				return o, fmt.Errorf("result holds a row nobody has: %v", r)
			}
		}
	}
	o.NonTrivial = untouched >= 1 && touched+nConf >= 1
	o.Class("shape=%s", c.Shape)
	o.Class("tier=%s", c.Tier)
	o.Class("branches=%d", len(c.Branches))
	if len(c.PKNames) == 0 {
		o.Class("no-key")
	} else if len(c.Base.PK) > 0 && c.Base.PK[0] != 0 {
		o.Class("key-not-first")
	}
	if len(c.Base.Rows) > 255 {
		o.Class("multi-block")
	}
	if nConf > 0 {
		o.Class("conflict")
	}
	if !sameColumnSet(c) {
		o.Class("column-change")
	} else {
		for _, b := range c.Branches {
			if !model.RowsEqual(b.Cols, c.Base.Cols) {
				o.Class("column-reorder")
				break
			}
		}
	}
	return o, nil
}

func mapsEqual(a, b map[string]string) bool {
	if len(a) != len(b) {
		return false
	}
	for k, v := range a {
		if w, ok := b[k]; !ok || w != v {
			return false
		}
	}
	return true
}

func readBack(db *stores.Mem, sum []byte) (gen.Table, error) {
	tbl, blocks, err := tblcheck.Read(db, sum)
	if err != nil {
		return gen.Table{}, fmt.Errorf("HARNESS: read back: %v", err)
	}
	t := gen.Table{Cols: tbl.Columns, PK: []int{}, Rows: [][]gen.Cell{}}
	for _, k := range tbl.PK {
		t.PK = append(t.PK, int(k))
	}
	for _, r := range tblcheck.Rows(blocks) {
		t.Rows = append(t.Rows, gen.Cells(r))
	}
	return t, nil
}
