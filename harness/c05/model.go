package c05

import (
	"sort"

	"verifharness/internal/gen"
	"verifharness/internal/model"
)

// tab is a table as rows-as-maps keyed by the key tuple.
type tab struct {
	cols []string
	rows map[string]map[string]string // TupleID(key) -> column name -> value
	keys map[string][]string          // TupleID(key) -> key tuple
}

func toTab(t gen.Table, pkNames []string) tab {
	x := tab{cols: t.Cols, rows: map[string]map[string]string{}, keys: map[string][]string{}}
	pos := map[string]int{}
	for i, c := range t.Cols {
		pos[c] = i
	}
	for _, r := range t.Rows {
		var key []string
		if len(pkNames) == 0 {
			key = gen.Strs(r)
		} else {
			for _, n := range pkNames {
				key = append(key, string(r[pos[n]]))
			}
		}
		m := map[string]string{}
		for i, c := range t.Cols {
			m[c] = string(r[i])
		}
		id := model.TupleID(key)
		x.rows[id] = m
		x.keys[id] = key
	}
	return x
}

func has(cols []string, c string) bool {
	for _, x := range cols {
		if x == c {
			return true
		}
	}
	return false
}

type expect struct {
	status string // row | removed | conflict | either
	key    []string
	row    map[string]string
}

// mergeModel is the reference three-way merge at cell level for tier A (every table has the same
// set of column names; order and key position are free).
func mergeModel(base gen.Table, branches []gen.Table, pkNames []string) (resultCols map[string]bool, out map[string]*expect) {
	b := toTab(base, pkNames)
	bs := make([]tab, len(branches))
	for i, t := range branches {
		bs[i] = toTab(t, pkNames)
	}
	removed := map[string]bool{}
	resultCols = map[string]bool{}
	for _, c := range b.cols {
		resultCols[c] = true
	}
	for _, t := range bs {
		for _, c := range t.cols {
			resultCols[c] = true
		}
		for _, c := range b.cols {
			if !has(t.cols, c) {
				removed[c] = true
			}
		}
	}
	for c := range removed {
		delete(resultCols, c)
	}
	ids := map[string][]string{}
	for id, k := range b.keys {
		ids[id] = k
	}
	for _, t := range bs {
		for id, k := range t.keys {
			ids[id] = k
		}
	}
	out = map[string]*expect{}
	n := len(bs)
	for id, key := range ids {
		e := &expect{key: key, row: map[string]string{}}
		out[id] = e
		br, inBase := b.rows[id]
		if inBase {
			removers, modifiers := 0, 0
			for _, t := range bs {
				r, ok := t.rows[id]
				if !ok {
					removers++
					continue
				}
				for _, c := range t.cols {
					if has(b.cols, c) && r[c] != br[c] {
						modifiers++
						break
					}
				}
			}
			if removers == n {
				e.status = "removed"
				continue
			}
			if removers > 0 {
				if modifiers > 0 {
					e.status = "conflict"
				} else {
					e.status = "removed"
				}
				continue
			}
		}
		conflict := false
		for c := range resultCols {
			changes := map[string]bool{}
			for _, t := range bs {
				r, ok := t.rows[id]
				if !ok || !has(t.cols, c) {
					continue
				}
				if !inBase || !has(b.cols, c) || r[c] != br[c] {
					changes[r[c]] = true
				}
			}
			switch len(changes) {
			case 0:
				if inBase && has(b.cols, c) {
					e.row[c] = br[c]
				} else {
					e.row[c] = ""
				}
			case 1:
				for v := range changes {
					e.row[c] = v
				}
			default:
				conflict = true
			}
		}
		if conflict {
			e.status = "conflict"
		} else {
			e.status = "row"
		}
	}
	return resultCols, out
}

func sortedIDs(out map[string]*expect) []string {
	ids := make([]string, 0, len(out))
	for id := range out {
		ids = append(ids, id)
	}
	sort.Slice(ids, func(i, j int) bool { return model.CmpTuple(out[ids[i]].key, out[ids[j]].key) < 0 })
	return ids
}
