// C18 — decoding a stream does not depend on how the transport chunks it.
package c18

import (
	"bytes"
	"encoding/base64"
	"errors"
	"fmt"
	"io"
	"strings"
	"testing"
	"time"

	"github.com/wrgl/wrgl/pkg/encoding"
	"github.com/wrgl/wrgl/pkg/encoding/packfile"
	"github.com/wrgl/wrgl/pkg/encoding/pktline"
	"github.com/wrgl/wrgl/pkg/misc"
	"github.com/wrgl/wrgl/pkg/objects"
	"pgregory.net/rapid"

	"verifharness/internal/evid"
	"verifharness/internal/gen"
	"verifharness/internal/model"
)

func TestMain(m *testing.M) { evid.Main("C18", m) }

type Case struct {
	Kind   string       `json:"kind"` // packfile | pktline | commit | table | block | blockindex | profile | strlist | strlistbytes
	B64    string       `json:"b64"`
	S      gen.Schedule `json:"schedule"`
	Fields int          `json:"fields"`
}

var sub = evid.Register("chunking", run)

func sum16(i int) []byte { return bytes.Repeat([]byte{byte(i)}, 16) }

func commitBytes(t *rapid.T) []byte {
	c := &objects.Commit{Table: sum16(rapid.IntRange(0, 255).Draw(t, "tbl")),
		AuthorName:  rapid.SampledFrom([]string{"", "a", "John Doe", "x\ny"}).Draw(t, "name"),
		AuthorEmail: rapid.SampledFrom([]string{"", "j@d.com"}).Draw(t, "email"),
		Message:     rapid.SampledFrom([]string{"", "m", strings.Repeat("msg ", 40)}).Draw(t, "msg"),
		Time:        time.Unix(int64(rapid.IntRange(0, 2000000000).Draw(t, "sec")), 0).In(time.FixedZone("", 3600*rapid.IntRange(-3, 3).Draw(t, "zone")))}
	for i, n := 0, rapid.IntRange(0, 3).Draw(t, "nparents"); i < n; i++ {
		c.Parents = append(c.Parents, sum16(i+7))
	}
	var buf bytes.Buffer
	c.WriteTo(&buf)
	return buf.Bytes()
}

func tableBytes(t *rapid.T) []byte {
	n := rapid.IntRange(0, 4).Draw(t, "ncols")
	cols := []string{"a", "b", "col c", "d"}[:n]
	rows := rapid.SampledFrom([]int{0, 1, 255, 256, 600}).Draw(t, "rows")
	tb := objects.NewTable(cols, nil)
	if n > 0 {
		tb.PK = []uint32{uint32(rapid.IntRange(0, n-1).Draw(t, "pk"))}
	}
	tb.RowsCount = uint32(rows)
	for i := 0; i < (rows+254)/255; i++ {
		tb.Blocks = append(tb.Blocks, sum16(i+1))
		tb.BlockIndices = append(tb.BlockIndices, sum16(i+100))
	}
	var buf bytes.Buffer
	tb.WriteTo(&buf)
	return buf.Bytes()
}

func smallRows(t *rapid.T) [][]string {
	n := rapid.IntRange(1, 6).Draw(t, "nrows")
	rows := [][]string{}
	for i := 0; i < n; i++ {
		rows = append(rows, []string{fmt.Sprintf("k%d", i), rapid.SampledFrom([]string{"", "v", "a,b", strings.Repeat("z", 300)}).Draw(t, "cell"), "t"})
	}
	return rows
}

func blockIndexBytes(rows [][]string) []byte {
	idx, _ := objects.IndexBlock(objects.NewStrListEncoder(true), model.NewHash(), rows, []uint32{0})
	var buf bytes.Buffer
	idx.WriteTo(&buf)
	return buf.Bytes()
}

func profileBytes(t *rapid.T) []byte {
	p := &objects.TableProfile{RowsCount: 3}
	for i, n := 0, rapid.IntRange(0, 3).Draw(t, "ncols"); i < n; i++ {
		f := 1.5
		col := &objects.ColumnProfile{Name: fmt.Sprintf("c%d", i), NACount: 1, MaxStrLen: 9}
		if rapid.Bool().Draw(t, "stats") {
			col.Min, col.Mean = &f, &f
			col.Percentiles = []float64{1, 2, 3}
			col.TopValues = objects.ValueCounts{{Value: "a", Count: 2}, {Value: "", Count: 1}}
		}
		p.Columns = append(p.Columns, col)
	}
	var buf bytes.Buffer
	p.WriteTo(&buf)
	return buf.Bytes()
}

func genStream(t *rapid.T) (kind string, data []byte, fields int) {
	kind = rapid.SampledFrom([]string{"packfile", "packfile", "pktline", "commit", "table", "block", "blockindex", "profile", "strlist", "strlistbytes"}).Draw(t, "kind")
	switch kind {
	case "packfile":
		var buf bytes.Buffer
		w, _ := packfile.NewPackfileWriter(&buf)
		n := rapid.IntRange(0, 4).Draw(t, "nobjs")
		for i := 0; i < n; i++ {
			switch rapid.IntRange(0, 2).Draw(t, "objkind") {
			case 0:
				w.WriteObject(packfile.ObjectCommit, commitBytes(t))
			case 1:
				w.WriteObject(packfile.ObjectTable, tableBytes(t))
			default:
				w.WriteObject(packfile.ObjectBlock, model.EncodeBlock(smallRows(t)))
			}
		}
		return kind, buf.Bytes(), n
	case "pktline":
		var buf bytes.Buffer
		n := rapid.IntRange(1, 6).Draw(t, "nlines")
		for i := 0; i < n; i++ {
			pktline.WritePktLine(&buf, misc.NewBuffer(nil), rapid.SampledFrom([]string{"", "want 0123", "have abcdef", "done", strings.Repeat("x", 200)}).Draw(t, "line"))
		}
		return kind, buf.Bytes(), n
	case "commit":
		return kind, commitBytes(t), 5
	case "table":
		return kind, tableBytes(t), 3
	case "block":
		r := smallRows(t)
		return kind, model.EncodeBlock(r), len(r)
	case "blockindex":
		r := smallRows(t)
		return kind, blockIndexBytes(r), len(r)
	case "profile":
		return kind, profileBytes(t), 5
	default:
		r := smallRows(t)
		var b []byte
		for _, row := range r {
			b = append(b, model.EncodeStrList(row)...)
		}
		return kind, b, len(r)
	}
}

func TestPropChunking(t *testing.T) {
	rapid.Check(t, func(t *rapid.T) {
		kind, data, fields := genStream(t)
		c := Case{Kind: kind, B64: base64.StdEncoding.EncodeToString(data), Fields: fields, S: gen.GenSchedule(t, len(data), "sched")}
		sub.Check(t, c)
	})
}

func TestReplay(t *testing.T) { evid.Replay(t) }

// decode reads the whole stream with the decoder for its kind and returns a canonical rendering of
// what was decoded plus the terminal condition.
func decode(kind string, r io.Reader) (string, error) {
	var out strings.Builder
	switch kind {
	case "packfile":
		pr, err := packfile.NewPackfileReader(io.NopCloser(r))
		if err != nil {
			return "", fmt.Errorf("NewPackfileReader: %v", err)
		}
		for i := 0; i < 100; i++ {
			ty, b, err := pr.ReadObject()
			if err != nil {
				if errors.Is(err, io.EOF) {
					fmt.Fprintf(&out, "EOF")
					return out.String(), nil
				}
				return out.String(), fmt.Errorf("ReadObject #%d: %v", i, err)
			}
			fmt.Fprintf(&out, "obj(%d,%x);", ty, model.Sum(b))
		}
	case "pktline":
		p := encoding.NewParser(r)
		for i := 0; i < 100; i++ {
			s, err := pktline.ReadPktLine(p)
			if err != nil {
				if errors.Is(err, io.EOF) {
					fmt.Fprintf(&out, "EOF")
					return out.String(), nil
				}
				return out.String(), fmt.Errorf("ReadPktLine #%d: %v", i, err)
			}
			fmt.Fprintf(&out, "line(%q);", s)
		}
	case "commit":
		_, c, err := objects.ReadCommitFrom(r)
		if err != nil {
			return "", err
		}
		fmt.Fprintf(&out, "%x|%q|%q|%d|%q|%x", c.Table, c.AuthorName, c.AuthorEmail, c.Time.Unix(), c.Message, c.Parents)
	case "table":
		_, tb, err := objects.ReadTableFrom(r)
		if err != nil {
			return "", err
		}
		fmt.Fprintf(&out, "%q|%v|%d|%x|%x", tb.Columns, tb.PK, tb.RowsCount, tb.Blocks, tb.BlockIndices)
	case "block":
		_, blk, err := objects.ReadBlockFrom(r)
		if err != nil {
			return "", err
		}
		fmt.Fprintf(&out, "%q", blk)
	case "blockindex":
		_, idx, err := objects.ReadBlockIndex(r)
		if err != nil {
			return "", err
		}
		var buf bytes.Buffer
		idx.WriteTo(&buf)
		fmt.Fprintf(&out, "%x", buf.Bytes())
	case "profile":
		p := &objects.TableProfile{}
		if _, err := p.ReadFrom(r); err != nil {
			return "", err
		}
		var buf bytes.Buffer
		p.WriteTo(&buf)
		fmt.Fprintf(&out, "%x", buf.Bytes())
	case "strlist":
		dec := objects.NewStrListDecoder(false)
		for i := 0; i < 100; i++ {
			_, sl, err := dec.Read(r)
			if err != nil {
				if errors.Is(err, io.EOF) {
					fmt.Fprintf(&out, "EOF")
					return out.String(), nil
				}
				return out.String(), err
			}
			fmt.Fprintf(&out, "%q;", sl)
		}
	case "strlistbytes":
		dec := objects.NewStrListDecoder(false)
		for i := 0; i < 100; i++ {
			_, b, err := dec.ReadBytes(r)
			if err != nil {
				if errors.Is(err, io.EOF) {
					fmt.Fprintf(&out, "EOF")
					return out.String(), nil
				}
				return out.String(), err
			}
			fmt.Fprintf(&out, "%x;", b)
		}
	}
	return out.String(), nil
}

func run(c Case) (o evid.Outcome, err error) {
	data, derr := base64.StdEncoding.DecodeString(c.B64)
	if derr != nil {
		return o, fmt.Errorf("HARNESS: %v", derr)
	}
	want, werr := decode(c.Kind, bytes.NewReader(data))
	if werr != nil {
		return o, fmt.Errorf("HARNESS: a valid %s stream does not decode from a plain buffer: %v", c.Kind, werr)
	}
	cr := gen.NewChunkReader(data, c.S)
	got, gerr := decode(c.Kind, cr)
	if gerr != nil {
		return o, fmt.Errorf("%s stream of %d bytes decodes from one buffer but fails when delivered as %s: %v", c.Kind, len(data), describe(c.S), gerr)
	}
	if got != want {
		return o, fmt.Errorf("%s stream decodes differently when delivered as %s:\n whole:   %.300s\n chunked: %.300s", c.Kind, describe(c.S), want, got)
	}
	dataReads := 0
	for _, ch := range c.S.Chunks {
		if ch > 0 {
			dataReads++
		}
	}
	o.NonTrivial = c.Fields >= 2 && dataReads >= 1 && len(data) >= 16
	o.Class("kind=%s", c.Kind)
	if c.S.EOFWithData {
		o.Class("eof-with-data")
	}
	if len(c.S.Chunks) > 0 {
		o.Class("partial-reads")
	}
	return o, nil
}

func describe(s gen.Schedule) string {
	n := len(s.Chunks)
	head := s.Chunks
	if n > 12 {
		head = head[:12]
	}
	return fmt.Sprintf("reads of %v%s (eof with data: %v)", head, map[bool]string{true: "...", false: ""}[n > 12], s.EOFWithData)
}

// TestExhaustiveSplits: for a fixed set of sample streams of every kind, every two-part split
// point, with and without data+EOF.
func TestExhaustiveSplits(t *testing.T) {
	rows := [][]string{{"k1", "v", "t"}, {"k2", "", "t"}, {"k3", strings.Repeat("q", 40), "t"}}
	com := &objects.Commit{Table: sum16(1), AuthorName: "John", AuthorEmail: "j@d", Message: "hello", Time: time.Unix(1600000000, 0).UTC(), Parents: [][]byte{sum16(2), sum16(3)}}
	var cb bytes.Buffer
	com.WriteTo(&cb)
	tb := objects.NewTable([]string{"a", "b"}, []uint32{0})
	tb.RowsCount = 300
	tb.Blocks = [][]byte{sum16(1), sum16(2)}
	tb.BlockIndices = [][]byte{sum16(3), sum16(4)}
	var tbuf bytes.Buffer
	tb.WriteTo(&tbuf)
	var pf bytes.Buffer
	w, _ := packfile.NewPackfileWriter(&pf)
	w.WriteObject(packfile.ObjectBlock, model.EncodeBlock(rows))
	w.WriteObject(packfile.ObjectTable, tbuf.Bytes())
	w.WriteObject(packfile.ObjectCommit, cb.Bytes())
	var pl bytes.Buffer
	for _, s := range []string{"want 0123", "", "have ab", "done"} {
		pktline.WritePktLine(&pl, misc.NewBuffer(nil), s)
	}
	f := 2.5
	prof := &objects.TableProfile{RowsCount: 3, Columns: []*objects.ColumnProfile{{Name: "a", Min: &f, Percentiles: []float64{1, 2}, TopValues: objects.ValueCounts{{Value: "x", Count: 1}}}, {Name: "b"}}}
	var pb bytes.Buffer
	prof.WriteTo(&pb)
	var sl []byte
	for _, r := range rows {
		sl = append(sl, model.EncodeStrList(r)...)
	}
	samples := []struct {
		kind string
		data []byte
	}{
		{"packfile", pf.Bytes()}, {"pktline", pl.Bytes()}, {"commit", cb.Bytes()}, {"table", tbuf.Bytes()},
		{"block", model.EncodeBlock(rows)}, {"blockindex", blockIndexBytes(rows)}, {"profile", pb.Bytes()}, {"strlist", sl}, {"strlistbytes", sl},
	}
	for _, s := range samples {
		for cut := 1; cut < len(s.data); cut++ {
			for _, e := range []bool{false, true} {
				sub.Check(t, Case{Kind: s.kind, B64: base64.StdEncoding.EncodeToString(s.data), Fields: 3, S: gen.Schedule{Chunks: []int{cut}, EOFWithData: e}})
			}
		}
	}
}
