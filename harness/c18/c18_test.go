// C18 — decoding a stream does not depend on how the transport chunks it.
package c18

import (
	"bytes"
	"encoding/base64"
	"fmt"
	"strings"
	"testing"
	"time"

	"github.com/wrgl/wrgl/pkg/encoding/packfile"
	"github.com/wrgl/wrgl/pkg/encoding/pktline"
	"github.com/wrgl/wrgl/pkg/misc"
	"github.com/wrgl/wrgl/pkg/objects"
	"pgregory.net/rapid"

	"verifharness/internal/evid"
	"verifharness/internal/gen"
	"verifharness/internal/model"
	"verifharness/internal/streams"
)

func TestMain(m *testing.M) { evid.Main("C18", m) }

type Case struct {
	Kind   string       `json:"kind"` // packfile | pktline | commit | table | block | blockindex | profile | strlist | strlistbytes
	B64    string       `json:"b64"`
	S      gen.Schedule `json:"schedule"`
	Fields int          `json:"fields"`
}

var sub = evid.Register("chunking", run)

func propChunking(t *rapid.T) {
	kind, data, fields := streams.Gen(t)
	c := Case{Kind: kind, B64: base64.StdEncoding.EncodeToString(data), Fields: fields, S: gen.GenSchedule(t, len(data), "sched")}
	sub.Check(t, c)
}

func TestPropChunking(t *testing.T) { rapid.Check(t, propChunking) }

// FuzzChunking drives the same property with Go's coverage-guided fuzzer (thorough tier).
func FuzzChunking(f *testing.F) { f.Fuzz(rapid.MakeFuzz(propChunking)) }

func TestReplay(t *testing.T) { evid.Replay(t) }

func run(c Case) (o evid.Outcome, err error) {
	data, derr := base64.StdEncoding.DecodeString(c.B64)
	if derr != nil {
		return o, fmt.Errorf("HARNESS: %v", derr)
	}
	want, werr := streams.Decode(c.Kind, bytes.NewReader(data))
	if werr != nil {
		return o, fmt.Errorf("HARNESS: a valid %s stream does not decode from a plain buffer: %v", c.Kind, werr)
	}
	cr := gen.NewChunkReader(data, c.S)
	got, gerr := streams.Decode(c.Kind, cr)
	if gerr != nil {
		return o, fmt.Errorf("%s stream of %d bytes decodes from one buffer but fails when delivered as %s: %v", c.Kind, len(data), describe(c.S), gerr)
	}
	if got != want {
		return o, fmt.Errorf("%s stream decodes differently when delivered as %s:\n whole:   %.300s\n chunked: %.300s", c.Kind, describe(c.S), want, got)
	}
	dataReads := 0
	for _, ch := range c.S.Chunks {
		if ch > 0 {
			dataReads++
		}
	}
	o.NonTrivial = c.Fields >= 2 && dataReads >= 1 && len(data) >= 16
	o.Class("kind=%s", c.Kind)
	if c.S.EOFWithData {
		o.Class("eof-with-data")
	}
	if len(c.S.Chunks) > 0 {
		o.Class("partial-reads")
	}
	return o, nil
}

func describe(s gen.Schedule) string {
	n := len(s.Chunks)
	head := s.Chunks
	if n > 12 {
		head = head[:12]
	}
	return fmt.Sprintf("reads of %v%s (eof with data: %v)", head, map[bool]string{true: "...", false: ""}[n > 12], s.EOFWithData)
}

// TestExhaustiveSplits: for a fixed set of sample streams of every kind, every two-part split
// point, with and without data+EOF.
func TestExhaustiveSplits(t *testing.T) {
	rows := [][]string{{"k1", "v", "t"}, {"k2", "", "t"}, {"k3", strings.Repeat("q", 40), "t"}}
	com := &objects.Commit{Table: streams.Sum16(1), AuthorName: "John", AuthorEmail: "j@d", Message: "hello", Time: time.Unix(1600000000, 0).UTC(), Parents: [][]byte{streams.Sum16(2), streams.Sum16(3)}}
	var cb bytes.Buffer
	com.WriteTo(&cb)
	tb := objects.NewTable([]string{"a", "b"}, []uint32{0})
	tb.RowsCount = 300
	tb.Blocks = [][]byte{streams.Sum16(1), streams.Sum16(2)}
	tb.BlockIndices = [][]byte{streams.Sum16(3), streams.Sum16(4)}
	var tbuf bytes.Buffer
	tb.WriteTo(&tbuf)
	var pf bytes.Buffer
	w, _ := packfile.NewPackfileWriter(&pf)
	w.WriteObject(packfile.ObjectBlock, model.EncodeBlock(rows))
	w.WriteObject(packfile.ObjectTable, tbuf.Bytes())
	w.WriteObject(packfile.ObjectCommit, cb.Bytes())
	var pl bytes.Buffer
	for _, s := range []string{"want 0123", "", "have ab", "done"} {
		pktline.WritePktLine(&pl, misc.NewBuffer(nil), s)
	}
	f := 2.5
	prof := &objects.TableProfile{RowsCount: 3, Columns: []*objects.ColumnProfile{{Name: "a", Min: &f, Percentiles: []float64{1, 2}, TopValues: objects.ValueCounts{{Value: "x", Count: 1}}}, {Name: "b"}}}
	var pb bytes.Buffer
	prof.WriteTo(&pb)
	var sl []byte
	for _, r := range rows {
		sl = append(sl, model.EncodeStrList(r)...)
	}
	samples := []struct {
		kind string
		data []byte
	}{
		{"packfile", pf.Bytes()}, {"pktline", pl.Bytes()}, {"commit", cb.Bytes()}, {"table", tbuf.Bytes()},
		{"block", model.EncodeBlock(rows)}, {"blockindex", streams.BlockIndexBytes(rows)}, {"profile", pb.Bytes()}, {"strlist", sl}, {"strlistbytes", sl},
	}
	for _, s := range samples {
		for cut := 1; cut < len(s.data); cut++ {
			for _, e := range []bool{false, true} {
				sub.Check(t, Case{Kind: s.kind, B64: base64.StdEncoding.EncodeToString(s.data), Fields: 3, S: gen.Schedule{Chunks: []int{cut}, EOFWithData: e}})
			}
		}
	}
}
