package c18

import (
	"bytes"
	"fmt"
	"net/http"
	"net/http/httptest"
	"sort"
	"strings"
	"testing"
	"time"

	"github.com/go-logr/logr"
	apiclient "github.com/wrgl/wrgl/pkg/api/client"
	"github.com/wrgl/wrgl/pkg/api/payload"
	apiutils "github.com/wrgl/wrgl/pkg/api/utils"
	"github.com/wrgl/wrgl/pkg/encoding/packfile"
	"github.com/wrgl/wrgl/pkg/objects"
	"pgregory.net/rapid"

	"verifharness/internal/evid"
	"verifharness/internal/stores"
	"verifharness/internal/xfer"
)

// HTTP leg: the same packfile reaches wrgl's API client (GetObjects / PostUploadPack) over a real
// HTTP connection in different transport framings - one write with a Content-Length, or chunked
// transfer encoding with a flush after every piece of a drawn schedule (pieces down to one byte,
// also inside object headers). What the receiver stores must be the same in every framing: every
// object of the packfile, byte-identical to the sender's.
type HTTPCase struct {
	Tbl      int    `json:"tbl"`      // pool table
	Endpoint string `json:"endpoint"` // objects | upload-pack
	Framing  string `json:"framing"`  // length | chunked
	Pieces   []int  `json:"pieces"`   // chunked: sizes of the pieces flushed one by one (cycled)
}

var subHTTP = evid.Register("http-framing", runHTTP)

func TestPropHTTPFraming(t *testing.T) {
	rapid.Check(t, func(t *rapid.T) {
		c := HTTPCase{
			Tbl:      rapid.IntRange(0, xfer.PoolSize-1).Draw(t, "tbl"),
			Endpoint: rapid.SampledFrom([]string{"objects", "upload-pack"}).Draw(t, "endpoint"),
			Framing:  rapid.SampledFrom([]string{"chunked", "chunked", "length"}).Draw(t, "framing"),
			Pieces:   []int{},
		}
		if c.Framing == "chunked" {
			for i, n := 0, rapid.IntRange(1, 6).Draw(t, "npieces"); i < n; i++ {
				c.Pieces = append(c.Pieces, rapid.SampledFrom([]int{1, 2, 3, 7, 16, 100, 4096, 1 << 20}).Draw(t, "piece"))
			}
		}
		subHTTP.Check(t, c)
	})
}

func runHTTP(c HTTPCase) (o evid.Outcome, err error) {
	src := stores.NewMem()
	pool, err := xfer.Pool(src)
	if err != nil {
		return o, fmt.Errorf("HARNESS: %v", err)
	}
	tsum := pool[c.Tbl%len(pool)]
	tbl, err := objects.GetTable(src, tsum)
	if err != nil {
		return o, fmt.Errorf("HARNESS: %v", err)
	}
	csum, err := stores.SaveCommit(src, tsum, nil, time.Unix(1600000000, 0), "c")
	if err != nil {
		return o, fmt.Errorf("HARNESS: %v", err)
	}
	// the packfile: blocks, table (and the commit for upload-pack)
	var pf bytes.Buffer
	pw, _ := packfile.NewPackfileWriter(&pf)
	for _, b := range tbl.Blocks {
		raw, _ := src.Raw("blk/" + string(b))
		pw.WriteObject(packfile.ObjectBlock, raw)
	}
	traw, _ := src.Raw("tbl/" + string(tsum))
	pw.WriteObject(packfile.ObjectTable, traw)
	if c.Endpoint == "upload-pack" {
		craw, _ := src.Raw("com/" + string(csum))
		pw.WriteObject(packfile.ObjectCommit, craw)
	}
	body := pf.Bytes()
	srv := httptest.NewServer(http.HandlerFunc(func(w http.ResponseWriter, r *http.Request) {
		w.Header().Set("Content-Type", apiclient.CTPackfile)
		if c.Framing == "length" {
			w.Header().Set("Content-Length", fmt.Sprint(len(body)))
			w.Write(body)
			return
		}
		fl, _ := w.(http.Flusher)
		rest := body
		for i := 0; len(rest) > 0; i++ {
			n := c.Pieces[i%len(c.Pieces)]
			if n > len(rest) {
				n = len(rest)
			}
			w.Write(rest[:n])
			if fl != nil {
				fl.Flush()
			}
			rest = rest[n:]
		}
	}))
	defer srv.Close()
	client, err := apiclient.NewClient(srv.URL, logr.Discard())
	if err != nil {
		return o, fmt.Errorf("HARNESS: %v", err)
	}
	var pr *packfile.PackfileReader
	var expected [][]byte
	if c.Endpoint == "objects" {
		pr, err = client.GetObjects([][]byte{tsum})
	} else {
		expected = [][]byte{csum}
		_, pr, err = client.PostUploadPack(&payload.UploadPackRequest{Wants: []*payload.Hex{payload.BytesToHex(csum)}, Done: true})
	}
	what := fmt.Sprintf("a %d-byte packfile served by /%s/ as %s", len(body), c.Endpoint, framing(c))
	if err != nil {
		return o, fmt.Errorf("%s: the client refuses it: %v", what, err)
	}
	if pr == nil {
		return o, fmt.Errorf("%s: the client returned no packfile", what)
	}
	dst := stores.NewMem()
	recv := apiutils.NewObjectReceiver(dst, expected, logr.Discard())
	if _, err := recv.Receive(pr, nil); err != nil {
		return o, fmt.Errorf("%s: Receive: %v", what, err)
	}
	var missing []string
	for _, k := range src.Keys() {
		if strings.HasPrefix(k, "tblidx/") || strings.HasPrefix(k, "tblsum/") || strings.HasPrefix(k, "blkidx/") {
			continue // rebuilt by the receiver
		}
		inPack := k == "tbl/"+string(tsum) || (c.Endpoint == "upload-pack" && k == "com/"+string(csum))
		for _, b := range tbl.Blocks {
			if k == "blk/"+string(b) {
				inPack = true
			}
		}
		if !inPack {
			continue
		}
		got, ok := dst.Raw(k)
		want, _ := src.Raw(k)
		if !ok || !bytes.Equal(got, want) {
			missing = append(missing, fmt.Sprintf("%s%x", k[:strings.IndexByte(k, '/')+1], k[strings.IndexByte(k, '/')+1:]))
		}
	}
	if len(missing) > 0 {
		sort.Strings(missing)
		return o, fmt.Errorf("%s: %d object(s) of the packfile did not arrive intact: %v", what, len(missing), missing)
	}
	o.NonTrivial = c.Framing == "chunked"
	o.Class("endpoint=%s", c.Endpoint)
	o.Class("framing=%s", c.Framing)
	return o, nil
}

func framing(c HTTPCase) string {
	if c.Framing == "length" {
		return "one body with a Content-Length"
	}
	return fmt.Sprintf("chunked transfer, flushed in pieces of %v bytes", c.Pieces)
}
