// C09 — after fetch or push the receiver holds the full history of every updated ref.
package c09

import (
	"bytes"
	"fmt"
	"strings"
	"testing"

	"github.com/go-logr/logr"
	apiclient "github.com/wrgl/wrgl/pkg/api/client"
	"github.com/wrgl/wrgl/pkg/objects"
	"github.com/wrgl/wrgl/pkg/ref"
	"pgregory.net/rapid"

	"verifharness/internal/evid"
	"verifharness/internal/refserver"
	"verifharness/internal/repocheck"
	"verifharness/internal/stores"
	"verifharness/internal/syncx"
)

func TestMain(m *testing.M) {
	refserver.TrustTestCert()
	evid.Main("C09", m)
}

type Case struct {
	T        syncx.Topology `json:"t"`
	Op       string         `json:"op"` // fetch | push | pull | session
	Depth    int            `json:"depth"`
	Force    bool           `json:"force"`
	MaxPack  uint64         `json:"max_pack"`
	TableNeg bool           `json:"table_neg"`
	Explicit bool           `json:"explicit"` // explicit refspecs instead of the remote's default
	Haves    int            `json:"haves"`    // haves per round trip (session leg)
	// Reset > 0 (fetch only): the server speaks HTTP/2 and cuts its Reset-th packfile response after
	// ResetAfter bytes with RST_STREAM(INTERNAL_ERROR), the fault `wrgl fetch` retries on.
	Reset      int `json:"reset,omitempty"`
	ResetAfter int `json:"reset_after,omitempty"`
}

var sub = evid.Register("sync", run)

func TestPropSync(t *testing.T) {
	rapid.Check(t, func(t *rapid.T) {
		c := Case{
			T:        syncx.GenTopology(t, evid.Scale(4, 7)),
			Op:       rapid.SampledFrom([]string{"fetch", "fetch", "push", "push", "pull", "session", "session", "refetch", "refetch", "shallowpush"}).Draw(t, "op"),
			Depth:    rapid.SampledFrom([]int{0, 0, 0, 1, 2, 3}).Draw(t, "depth"),
			Force:    rapid.IntRange(0, 3).Draw(t, "force") == 0,
			MaxPack:  rapid.SampledFrom([]uint64{0, 1, 300, 5000}).Draw(t, "maxpack"),
			TableNeg: rapid.Bool().Draw(t, "tableneg"),
			Explicit: rapid.Bool().Draw(t, "explicit"),
			Haves:    rapid.SampledFrom([]int{1, 2, 5, 256}).Draw(t, "haves"),
		}
		if c.Op == "fetch" && rapid.IntRange(0, 2).Draw(t, "streamReset") == 0 {
			c.Reset = rapid.IntRange(1, 2).Draw(t, "resetPackfile")
			c.ResetAfter = rapid.SampledFrom([]int{0, 1, 5, 40, 200, 1500, 100000}).Draw(t, "resetAfter")
		}
		if c.Op == "fetch" && c.Reset == 0 && rapid.IntRange(0, 4).Draw(t, "shallowRemote") == 0 {
			// the remote holds the commit of one of its ref tips without data (it is a depth-limited
			// mirror itself): the tip must not be some other tip's ancestor nor share its table with
			// another commit the remote has, so that this tip is the only thing that is shallow
			r := c.T.Refs[rapid.IntRange(0, len(c.T.Refs)-1).Draw(t, "shallowRef")]
			if x := r.R; x >= 0 && c.T.Nodes[x].Owner == syncx.Remote {
				ok := true
				for j, nd := range c.T.Nodes {
					if j != x && nd.Table == c.T.Nodes[x].Table {
						ok = false
					}
					for _, p := range nd.Parents {
						if p == x {
							ok = false
						}
					}
				}
				if ok {
					c.T.RShallow = x + 1
				}
			}
		}
		if c.Op == "refetch" && rapid.Bool().Draw(t, "revertTemplate") {
			// The remote branch is reset to a new commit f that sits on an older commit e_i and
			// carries e_i's table (a revert), after a depth-limited first fetch left e_i shallow on
			// the local side; another, newer branch both sides have keeps the negotiation going.
			k := rapid.IntRange(2, 4).Draw(t, "chain")
			nodes := []syncx.Node{{Owner: syncx.Both, Parents: []int{}, Table: 9, Time: 1600000000}}
			for i := 1; i <= k; i++ {
				nodes = append(nodes, syncx.Node{Owner: syncx.Remote, Parents: []int{i - 1}, Table: 10 + i, Time: 1600000000 + int64(i)*60})
			}
			old := rapid.IntRange(1, k-1).Draw(t, "revertTo")
			nodes = append(nodes, syncx.Node{Owner: syncx.Remote, Parents: []int{old}, Table: 10 + old, Time: 1600000000 + int64(k+1)*60})
			nodes = append(nodes, syncx.Node{Owner: syncx.Both, Parents: []int{0}, Table: 30, Time: 1600000000 + int64(k+5)*60})
			c.T = syncx.Topology{Nodes: nodes, Refs: []syncx.Ref{
				{Name: "heads/main", L: rapid.SampledFrom([]int{-1, 0}).Draw(t, "l"), R: k, R2: k + 1},
				{Name: "heads/dev", L: k + 2, R: k + 2, R2: k + 2},
			}}
			c.Depth = rapid.IntRange(1, 2).Draw(t, "depth1")
			c.Haves = rapid.SampledFrom([]int{1, 1, 2, 256}).Draw(t, "haves1")
		} else if c.Op == "refetch" {
			// few distinct tables: a new commit often carries the table of a commit that is shallow
			// locally (what a revert produces)
			for i := range c.T.Nodes {
				c.T.Nodes[i].Table %= 2
			}
			c.Depth = rapid.SampledFrom([]int{1, 1, 2}).Draw(t, "depth1")
		}
		sub.Check(t, c)
	})
}

func TestReplay(t *testing.T) { evid.Replay(t) }

func sameRefs(a, b *syncx.RefState) error {
	for k, v := range a.Refs {
		if !bytes.Equal(b.Refs[k], v) {
			return fmt.Errorf("ref %q changed", k)
		}
	}
	for k := range b.Refs {
		if _, ok := a.Refs[k]; !ok {
			return fmt.Errorf("ref %q appeared", k)
		}
	}
	for k, l := range a.Logs {
		if len(b.Logs[k]) != len(l) {
			return fmt.Errorf("log of %q grew from %d to %d entries", k, len(l), len(b.Logs[k]))
		}
	}
	return nil
}

func run(c Case) (o evid.Outcome, err error) {
	w, err := syncx.Build(c.T, c.Reset > 0)
	if err != nil {
		return o, fmt.Errorf("HARNESS: %v", err)
	}
	defer w.Close()
	w.Server.AbortPackfile, w.Server.AbortAfter = c.Reset, c.ResetAfter
	w.Server.MaxPackfileSize = c.MaxPack
	w.Server.TableNegotiation = c.TableNeg
	o.Class("op=%s", c.Op)
	if c.T.RShallow > 0 {
		o.Class("remote-shallow-at-a-ref-tip")
	}

	var args []string
	switch c.Op {
	case "fetch":
		args = []string{"fetch", "origin"}
		if c.Explicit {
			for _, r := range c.T.Refs {
				if r.R < 0 {
					continue
				}
				switch {
				case strings.HasPrefix(r.Name, "heads/"):
					args = append(args, fmt.Sprintf("+refs/%s:refs/remotes/origin/%s", r.Name, r.Name[6:]))
				default:
					args = append(args, fmt.Sprintf("+refs/%s:refs/%s", r.Name, r.Name))
				}
			}
			if len(args) == 2 {
				o.Class("nothing-to-do")
				return o, nil
			}
		}
		if c.Depth > 0 {
			args = append(args, "--depth", fmt.Sprint(c.Depth))
		}
		if c.Force {
			args = append(args, "--force")
		}
	case "push":
		if c.MaxPack > 0 {
			if out, err := w.Repo.Run("config", "set", "pack.maxFileSize", fmt.Sprint(c.MaxPack)); err != nil {
				return o, fmt.Errorf("HARNESS: config set: %v (%s)", err, out)
			}
		}
		args = []string{"push", "origin"}
		for _, r := range c.T.Refs {
			if r.L < 0 {
				continue
			}
			spec := fmt.Sprintf("refs/%s:refs/%s", r.Name, r.Name)
			if c.Force {
				spec = "+" + spec
			}
			args = append(args, spec)
		}
		if len(args) == 2 {
			o.Class("nothing-to-do")
			return o, nil
		}
	case "pull":
		var br string
		for _, r := range c.T.Refs {
			if strings.HasPrefix(r.Name, "heads/") && r.R >= 0 && r.L >= 0 {
				br = r.Name[6:]
			}
		}
		if br == "" {
			o.Class("nothing-to-do")
			return o, nil
		}
		args = []string{"pull", br, "origin", fmt.Sprintf("+refs/heads/%s:refs/remotes/origin/%s", br, br), "-n", "1"}
		if c.Depth > 0 {
			args = append(args, "--depth", fmt.Sprint(c.Depth))
		}
	case "session":
		return runSession(c, w, o)
	case "refetch":
		return runRefetch(c, w, o)
	case "shallowpush":
		return runShallowPush(c, w, o)
	}

	before, err := w.LocalRefs()
	if err != nil {
		return o, fmt.Errorf("HARNESS: %v", err)
	}
	rbefore, _ := syncx.ReadRefs(w.Server.RS)
	w.Server.ResetStats()
	out, cerr := w.Repo.Run(args...)
	stats := w.Server.Stats
	after, err := w.LocalRefs()
	if err != nil {
		return o, fmt.Errorf("local repository cannot be reopened after %v: %v", args, err)
	}
	rafter, _ := syncx.ReadRefs(w.Server.RS)
	if len(stats.Errors) > 0 && cerr == nil {
		evid.Note("server reported an error while the command succeeded")
	}

	// whatever happened, both repositories stay consistent
	ldb, lrs, closeL, err := w.Repo.Open()
	if err != nil {
		return o, fmt.Errorf("HARNESS: %v", err)
	}
	if err := repocheck.Consistent(ldb, lrs); err != nil {
		closeL()
		return o, fmt.Errorf("after `wrgl %s` (err=%v) the local repository is inconsistent: %v", strings.Join(args, " "), cerr, err)
	}
	// every local ref that was created or moved has its full history, with data within depth
	moved := 0
	newCommits := 0
	for name, sum := range after.Refs {
		if bytes.Equal(before.Refs[name], sum) {
			continue
		}
		moved++
		node := w.NodeOf(sum)
		if node < 0 {
			continue // a merge commit created locally by pull; covered by Consistent above
		}
		if err := w.CheckClosure(ldb, node, c.Depth, nil); err != nil {
			closeL()
			return o, fmt.Errorf("after `wrgl %s`: local ref %q moved to c%d but %v\nlocal before: %s\nremote: %s", strings.Join(args, " "), name, node, err, before.Describe(w), rbefore.Describe(w))
		}
		anc := w.G.Anc(node)
		for a := range anc {
			if w.T.Nodes[a].Owner == syncx.Remote {
				newCommits++
			}
		}
	}
	closeL()
	if err := repocheck.Consistent(w.Server.DB, w.Server.RS); err != nil {
		return o, fmt.Errorf("after `wrgl %s` the remote repository is inconsistent: %v", strings.Join(args, " "), err)
	}
	rmoved := 0
	for name, sum := range rafter.Refs {
		if bytes.Equal(rbefore.Refs[name], sum) {
			continue
		}
		rmoved++
		node := w.NodeOf(sum)
		if node < 0 {
			return o, fmt.Errorf("remote ref %q moved to an unknown commit", name)
		}
		if err := w.CheckClosure(w.Server.DB, node, 0, nil); err != nil {
			return o, fmt.Errorf("after `wrgl %s`: remote ref %q moved to c%d but on the remote %v", strings.Join(args, " "), name, node, err)
		}
		for a := range w.G.Anc(node) {
			if w.T.Nodes[a].Owner == syncx.Local {
				newCommits++
			}
		}
	}
	if cerr != nil {
		// rejected updates etc. are C10's subject; here only the state matters
		o.Class("command-failed")
		evid.Note("command failed: %s", firstLine(cerr.Error()))
		return o, nil
	}
	_ = out
	// an immediately repeated identical command transfers nothing and changes nothing
	if c.Op != "pull" {
		w.Server.ResetStats()
		out2, err2 := w.Repo.Run(args...)
		if err2 != nil {
			return o, fmt.Errorf("repeating `wrgl %s` fails: %v (%s)", strings.Join(args, " "), err2, out2)
		}
		s2 := w.Server.Stats
		if s2.ObjectsSent != 0 || s2.PackfilesSent != 0 || s2.ObjectsReceived != 0 || s2.PackfilesReceived != 0 {
			return o, fmt.Errorf("repeating `wrgl %s` transferred objects again: sent %d objects in %d packfiles, received %d objects in %d packfiles", strings.Join(args, " "), s2.ObjectsSent, s2.PackfilesSent, s2.ObjectsReceived, s2.PackfilesReceived)
		}
		again, err := w.LocalRefs()
		if err != nil {
			return o, fmt.Errorf("HARNESS: %v", err)
		}
		if err := sameRefs(after, again); err != nil {
			return o, fmt.Errorf("repeating `wrgl %s` changed local state: %v", strings.Join(args, " "), err)
		}
		ragain, _ := syncx.ReadRefs(w.Server.RS)
		if err := sameRefs(rafter, ragain); err != nil {
			return o, fmt.Errorf("repeating `wrgl %s` changed remote state: %v", strings.Join(args, " "), err)
		}
	}
	o.NonTrivial = moved+rmoved >= 1 && newCommits >= 2 && (stats.NegotiationRounds >= 2 || stats.PackfilesSent+stats.PackfilesReceived >= 2 || c.Depth > 0)
	if stats.Aborts > 0 {
		o.Class("stream-reset-in-packfile-%d", c.Reset)
	}
	if stats.NegotiationRounds >= 2 {
		o.Class("multi-round-negotiation")
	}
	if stats.PackfilesSent+stats.PackfilesReceived >= 2 {
		o.Class("multi-packfile")
	}
	if c.Depth > 0 {
		o.Class("depth>0")
	}
	if moved+rmoved > 0 {
		o.Class("refs-moved")
	}
	return o, nil
}

func firstLine(s string) string {
	if i := strings.IndexByte(s, '\n'); i >= 0 {
		s = s[:i]
	}
	if len(s) > 80 {
		s = s[:80]
	}
	return s
}

// runSession drives apiclient.UploadPackSession directly with a chosen number of haves per round.
func runSession(c Case, w *syncx.World, o evid.Outcome) (evid.Outcome, error) {
	ldb, lrs, closeL, err := w.Repo.Open()
	if err != nil {
		return o, fmt.Errorf("HARNESS: %v", err)
	}
	defer closeL()
	client, err := apiclient.NewClient(w.Server.URL, logr.Discard())
	if err != nil {
		return o, fmt.Errorf("HARNESS: %v", err)
	}
	var advertised [][]byte
	wantNodes := []int{}
	for _, r := range c.T.Refs {
		if r.R >= 0 {
			advertised = append(advertised, w.Sums[r.R])
			wantNodes = append(wantNodes, r.R)
		}
	}
	if len(advertised) == 0 {
		o.Class("nothing-to-do")
		return o, nil
	}
	w.Server.ResetStats()
	ses, err := apiclient.NewUploadPackSession(ldb, lrs, client, advertised,
		apiclient.WithUploadPackHavesPerRoundTrip(c.Haves), apiclient.WithUploadPackDepth(c.Depth))
	if err != nil {
		if err.Error() == "nothing wanted" {
			o.Class("nothing-to-do")
			return o, nil
		}
		return o, fmt.Errorf("NewUploadPackSession: %v", err)
	}
	if _, err := ses.Start(); err != nil {
		return o, fmt.Errorf("upload-pack session with %d haves per round: %v (server: %v)", c.Haves, err, w.Server.Stats.Errors)
	}
	for _, n := range wantNodes {
		if err := w.CheckClosure(ldb, n, c.Depth, nil); err != nil {
			return o, fmt.Errorf("after an upload-pack session (%d haves per round, depth %d): want c%d: %v", c.Haves, c.Depth, n, err)
		}
	}
	if err := repocheck.Consistent(ldb, lrs); err != nil {
		return o, fmt.Errorf("after an upload-pack session the local repository is inconsistent: %v", err)
	}
	st := w.Server.Stats
	o.NonTrivial = st.NegotiationRounds >= 2 || st.PackfilesSent >= 2
	o.Class("haves=%d", c.Haves)
	if st.NegotiationRounds >= 2 {
		o.Class("multi-round-negotiation")
	}
	return o, nil
}

// runRefetch: a depth-limited fetch, then the remote refs move, then a second exchange (library
// session with a chosen number of haves per round, full depth). Everything the second exchange
// brings must be complete.
func runRefetch(c Case, w *syncx.World, o evid.Outcome) (evid.Outcome, error) {
	d1 := c.Depth
	if d1 == 0 {
		d1 = 1
	}
	if out, err := w.Repo.Run("fetch", "origin", "--depth", fmt.Sprint(d1)); err != nil {
		o.Class("command-failed")
		evid.Note("refetch: first fetch failed: %s", firstLine(err.Error()+" "+out))
		return o, nil
	}
	// the remote moves on
	for _, r := range c.T.Refs {
		name := r.Name
		if r.R2 >= 0 {
			if err := ref.SaveRef(w.Server.RS, name, w.Sums[r.R2], "remote", "r@x", "commit", "moved", nil); err != nil {
				return o, fmt.Errorf("HARNESS: %v", err)
			}
		} else {
			ref.DeleteRef(w.Server.RS, name)
		}
	}
	ldb, lrs, closeL, err := w.Repo.Open()
	if err != nil {
		return o, fmt.Errorf("HARNESS: %v", err)
	}
	defer closeL()
	had := map[int]bool{}
	shallowBefore := 0
	for i, s := range w.Sums {
		if objects.CommitExist(ldb, s) {
			had[i] = true
			if !objects.TableExist(ldb, w.Tables[i]) {
				shallowBefore++
			}
		}
	}
	client, err := apiclient.NewClient(w.Server.URL, logr.Discard())
	if err != nil {
		return o, fmt.Errorf("HARNESS: %v", err)
	}
	var advertised [][]byte
	wantNodes := []int{}
	for _, r := range c.T.Refs {
		if r.R2 >= 0 {
			advertised = append(advertised, w.Sums[r.R2])
			wantNodes = append(wantNodes, r.R2)
		}
	}
	if len(advertised) == 0 {
		o.Class("nothing-to-do")
		return o, nil
	}
	w.Server.ResetStats()
	ses, err := apiclient.NewUploadPackSession(ldb, lrs, client, advertised, apiclient.WithUploadPackHavesPerRoundTrip(c.Haves))
	if err != nil {
		if err.Error() == "nothing wanted" {
			o.Class("nothing-to-do")
			return o, nil
		}
		return o, fmt.Errorf("NewUploadPackSession: %v", err)
	}
	if _, err := ses.Start(); err != nil {
		return o, fmt.Errorf("second exchange (%d haves per round) after a depth-%d fetch: %v (server: %v)", c.Haves, d1, err, w.Server.Stats.Errors)
	}
	newCommits := 0
	for _, n := range wantNodes {
		for a := range w.G.Anc(n) {
			if !objects.CommitExist(ldb, w.Sums[a]) {
				return o, fmt.Errorf("after the second exchange, ancestor c%d of wanted c%d is missing", a, n)
			}
			if !had[a] {
				newCommits++
				// a commit transferred by a full-depth exchange must come with its data
				if err := w.CheckClosure(ldb, a, 1, nil); err != nil {
					return o, fmt.Errorf("a depth-%d fetch, then the remote moved, then a full exchange with %d haves per round: commit c%d was transferred but %v", d1, c.Haves, a, err)
				}
			}
		}
	}
	if err := repocheck.Consistent(ldb, lrs); err != nil {
		return o, fmt.Errorf("after the second exchange the local repository is inconsistent: %v", err)
	}
	o.NonTrivial = newCommits >= 1 && shallowBefore >= 1
	o.Class("haves=%d", c.Haves)
	if shallowBefore > 0 {
		o.Class("shallow-commits-before-second-exchange")
	}
	if w.Server.Stats.NegotiationRounds >= 2 {
		o.Class("multi-round-negotiation")
	}
	return o, nil
}

// runGuarded runs a command and turns a panic of the command into an error (the statement is
// conditional on the command succeeding; how it fails is not C09's subject).
func runGuarded(w *syncx.World, args ...string) (out string, err error) {
	defer func() {
		if r := recover(); r != nil {
			err = fmt.Errorf("command panicked: %v", r)
		}
	}()
	return w.Repo.Run(args...)
}

// runShallowPush: a depth-limited fetch leaves older commits without data on the local side; a
// branch is put on a fetched commit and pushed to a second, empty remote (optionally after the
// first remote was removed, so that no fetch reflog says where the missing data could come from).
// If that push succeeds, the second remote must hold the branch's whole history with all data.
func runShallowPush(c Case, w *syncx.World, o evid.Outcome) (evid.Outcome, error) {
	d1 := c.Depth
	if d1 == 0 {
		d1 = 1
	}
	if out, err := w.Repo.Run("fetch", "origin", "--depth", fmt.Sprint(d1)); err != nil {
		o.Class("command-failed")
		evid.Note("shallowpush: first fetch failed: %s", firstLine(err.Error()+" "+out))
		return o, nil
	}
	tip := -1
	for _, r := range c.T.Refs {
		if r.R >= 0 {
			tip = r.R
		}
	}
	if tip < 0 {
		o.Class("nothing-to-do")
		return o, nil
	}
	ldb, lrs, closeL, err := w.Repo.Open()
	if err != nil {
		return o, fmt.Errorf("HARNESS: %v", err)
	}
	if !objects.CommitExist(ldb, w.Sums[tip]) {
		closeL()
		o.Class("nothing-to-do")
		return o, nil
	}
	shallow := 0
	for a := range w.G.Anc(tip) {
		if !objects.TableExist(ldb, w.Tables[a]) {
			shallow++
		}
	}
	if err := ref.SaveRef(lrs, "heads/pushme", w.Sums[tip], "local", "local@example.com", "branch", "created", nil); err != nil {
		closeL()
		return o, fmt.Errorf("HARNESS: %v", err)
	}
	closeL()
	ors, _, closeORS, err := stores.NewRefStore()
	if err != nil {
		return o, fmt.Errorf("HARNESS: %v", err)
	}
	defer closeORS()
	other := refserver.New(stores.NewMem(), ors)
	defer other.Close()
	if c.Explicit {
		// the remote the commits came from is forgotten
		if out, err := w.Repo.Run("remote", "remove", "origin"); err != nil {
			return o, fmt.Errorf("HARNESS: remote remove: %v (%s)", err, out)
		}
		o.Class("origin-removed")
	}
	if out, err := w.Repo.Run("remote", "add", "other", other.URL); err != nil {
		return o, fmt.Errorf("HARNESS: remote add: %v (%s)", err, out)
	}
	if c.MaxPack > 0 {
		if out, err := w.Repo.Run("config", "set", "pack.maxFileSize", fmt.Sprint(c.MaxPack)); err != nil {
			return o, fmt.Errorf("HARNESS: config set: %v (%s)", err, out)
		}
	}
	args := []string{"push", "other", "refs/heads/pushme:refs/heads/pushme"}
	out, cerr := runGuarded(w, args...)
	rrefs, _ := syncx.ReadRefs(other.RS)
	if sum, ok := rrefs.Refs["heads/pushme"]; ok {
		node := w.NodeOf(sum)
		if node < 0 {
			return o, fmt.Errorf("second remote: ref moved to an unknown commit")
		}
		if err := w.CheckClosure(other.DB, node, 0, nil); err != nil {
			return o, fmt.Errorf("a depth-%d fetch (%d commits of c%d's history left without data locally), then `wrgl %s` to an empty remote (err=%v): the remote branch was created but on that remote %v", d1, shallow, node, strings.Join(args, " "), cerr, err)
		}
	}
	if err := repocheck.Consistent(other.DB, other.RS); err != nil {
		return o, fmt.Errorf("after `wrgl %s` (err=%v) the second remote is inconsistent: %v", strings.Join(args, " "), cerr, err)
	}
	if shallow > 0 {
		o.Class("shallow-local-history")
	}
	if cerr != nil {
		o.Class("command-failed")
		evid.Note("shallowpush failed: %s", firstLine(cerr.Error()+" "+out))
	} else {
		o.Class("push-succeeded")
	}
	o.NonTrivial = shallow > 0
	return o, nil
}
