module verifharness

go 1.23

toolchain go1.23.5

require (
	github.com/wrgl/wrgl v0.0.0
	pgregory.net/rapid v1.3.0
)

require (
	github.com/klauspost/compress v1.16.7 // indirect
	github.com/pckhoi/meow v0.0.0-20211009023351-e1fff1d3c870 // indirect
)

replace github.com/wrgl/wrgl => /repo
