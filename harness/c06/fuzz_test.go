package c06

import (
	"testing"

	"pgregory.net/rapid"
)

// Native fuzz targets (thorough tier): the rapid generators are fed from the fuzzer's byte stream.
func FuzzCommit(f *testing.F) { f.Fuzz(rapid.MakeFuzz(propCommit)) }
func FuzzBlock(f *testing.F)  { f.Fuzz(rapid.MakeFuzz(propBlock)) }
