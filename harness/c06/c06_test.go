// C06 — objects round-trip through their encodings and are stored under their hash.
package c06

import (
	"bytes"
	"fmt"
	"math"
	"strings"
	"testing"
	"time"

	"github.com/wrgl/wrgl/pkg/encoding/packfile"
	"github.com/wrgl/wrgl/pkg/objects"
	"pgregory.net/rapid"

	"verifharness/internal/evid"
	"verifharness/internal/gen"
	"verifharness/internal/model"
	"verifharness/internal/stores"
)

func TestMain(m *testing.M) { evid.Main("C06", m) }

func sum16(i int) []byte { return bytes.Repeat([]byte{byte(i)}, 16) }

// ---- commits ------------------------------------------------------------------------------------

type CommitCase struct {
	Table   int      `json:"table"`
	Name    gen.Cell `json:"name"`
	Email   gen.Cell `json:"email"`
	Message gen.Cell `json:"message"`
	Zero    bool     `json:"zero"`
	Sec     int64    `json:"sec"`
	ZoneMin int      `json:"zone"`
	Parents []int    `json:"parents"`
}

var subCommit = evid.Register("commit", runCommit)

var texts = []string{"", "a", "John Doe", "line1\nline2", "\nparent 0123456789abcdef\n", "table x", "\x00", "\xff\xfe", "é", " "}

func genText(t *rapid.T, label string) gen.Cell {
	k := rapid.IntRange(0, 19).Draw(t, label+"kind")
	switch {
	case k < 12:
		return gen.Cell(rapid.SampledFrom(texts).Draw(t, label))
	case k < 16:
		n := rapid.SampledFrom([]int{255, 256, 1000, 65534, 65535}).Draw(t, label+"len")
		return gen.Cell(strings.Repeat("m", n))
	case k < 18:
		n := rapid.SampledFrom([]int{65536, 65537, 70000, 131071}).Draw(t, label+"over")
		return gen.Cell(strings.Repeat("o", n))
	default:
		// multi-byte characters: the limit is in bytes, not in characters
		switch rapid.IntRange(0, 3).Draw(t, label+"mb") {
		case 0:
			return gen.Cell(strings.Repeat("é", 32767)) // 65534 bytes: within the limit
		case 1:
			return gen.Cell(strings.Repeat("a", 65534) + "é") // 65536 bytes, 65535 characters
		case 2:
			return gen.Cell(strings.Repeat("é", 40000)) // 80000 bytes, 40000 characters
		default:
			return gen.Cell(strings.Repeat("語", 21846)) // 65538 bytes, 21846 characters
		}
	}
}

func TestPropCommit(t *testing.T) { rapid.Check(t, propCommit) }

func propCommit(t *rapid.T) {
	{
		c := CommitCase{
			Table:   rapid.IntRange(0, 255).Draw(t, "table"),
			Name:    genText(t, "name"),
			Email:   genText(t, "email"),
			Message: genText(t, "message"),
			Zero:    rapid.IntRange(0, 9).Draw(t, "zero") == 0,
			Sec:     rapid.SampledFrom([]int64{0, 1, -1, 1600000000, 9999999999, -999999999, 2147483647, 2147483648, 4294967296}).Draw(t, "sec"),
			ZoneMin: rapid.SampledFrom([]int{0, 60, -60, 330, -570, 845, -720, 1, -1, 14 * 60}).Draw(t, "zone"),
			Parents: []int{},
		}
		if rapid.Bool().Draw(t, "freeSec") {
			c.Sec = rapid.Int64Range(-999999999, 9999999999).Draw(t, "secv")
			c.ZoneMin = rapid.IntRange(-14*60, 14*60).Draw(t, "zonev")
		}
		for i, n := 0, rapid.IntRange(0, 4).Draw(t, "nparents"); i < n; i++ {
			c.Parents = append(c.Parents, rapid.IntRange(0, 255).Draw(t, "parent"))
		}
		subCommit.Check(t, c)
	}
}

func runCommit(c CommitCase) (o evid.Outcome, err error) {
	com := &objects.Commit{Table: sum16(c.Table), AuthorName: string(c.Name), AuthorEmail: string(c.Email), Message: string(c.Message)}
	if !c.Zero {
		com.Time = time.Unix(c.Sec, 0).In(time.FixedZone("", c.ZoneMin*60))
	}
	var parents [][]byte
	for _, p := range c.Parents {
		parents = append(parents, sum16(p))
	}
	com.Parents = parents
	over := len(c.Name) > 65535 || len(c.Email) > 65535 || len(c.Message) > 65535
	var buf bytes.Buffer
	_, werr := com.WriteTo(&buf)
	db := stores.NewMem()
	if over {
		o.NonTrivial = true
		o.Class("over-limit")
		if werr == nil {
			// nothing unreadable may be produced
			if _, back, rerr := objects.ReadCommitFrom(bytes.NewReader(buf.Bytes())); rerr != nil || back.Message != com.Message || back.AuthorName != com.AuthorName || back.AuthorEmail != com.AuthorEmail {
				return o, fmt.Errorf("a commit with a text field over 65535 bytes was written without error and does not read back (%v)", rerr)
			}
			return o, fmt.Errorf("a commit with a text field over 65535 bytes was written without error")
		}
		return o, nil
	}
	if werr != nil {
		return o, fmt.Errorf("WriteTo: %v", werr)
	}
	want := model.EncodeCommit(com.Table, com.AuthorName, com.AuthorEmail, model.EncodeTime(c.Zero, c.Sec, c.ZoneMin), com.Message, parents)
	if !bytes.Equal(buf.Bytes(), want) {
		return o, fmt.Errorf("commit bytes differ from the reference encoding:\n got %q\nwant %q", clipb(buf.Bytes()), clipb(want))
	}
	_, back, err := objects.ReadCommitFrom(bytes.NewReader(buf.Bytes()))
	if err != nil {
		return o, fmt.Errorf("ReadCommitFrom of freshly written bytes: %v", err)
	}
	if !bytes.Equal(back.Table, com.Table) || back.AuthorName != com.AuthorName || back.AuthorEmail != com.AuthorEmail || back.Message != com.Message {
		return o, fmt.Errorf("commit fields changed in the round trip")
	}
	if len(back.Parents) != len(parents) {
		return o, fmt.Errorf("%d parents written, %d read", len(parents), len(back.Parents))
	}
	for i := range parents {
		if !bytes.Equal(back.Parents[i], parents[i]) {
			return o, fmt.Errorf("parent %d changed", i)
		}
	}
	if c.Zero {
		if !back.Time.IsZero() {
			return o, fmt.Errorf("zero time read back as %v", back.Time)
		}
	} else {
		_, off := back.Time.Zone()
		if back.Time.Unix() != c.Sec || off != c.ZoneMin*60 {
			return o, fmt.Errorf("time %d %+d min read back as %d %+d s", c.Sec, c.ZoneMin, back.Time.Unix(), off)
		}
	}
	var buf2 bytes.Buffer
	if _, err := back.WriteTo(&buf2); err != nil || !bytes.Equal(buf2.Bytes(), buf.Bytes()) {
		return o, fmt.Errorf("re-encoding what was read does not reproduce the bytes (%v)", err)
	}
	sum, err := objects.SaveCommit(db, buf.Bytes())
	if err != nil {
		return o, fmt.Errorf("SaveCommit: %v", err)
	}
	if !bytes.Equal(sum, model.Sum(want)) {
		return o, fmt.Errorf("commit identifier %x is not the hash of its bytes %x", sum, model.Sum(want))
	}
	if raw, ok := db.Raw("com/" + string(sum)); !ok || !bytes.Equal(raw, want) {
		return o, fmt.Errorf("commit is not stored under com/<hash of its bytes>")
	}
	if _, err := objects.SaveCommit(db, buf.Bytes()); err != nil || db.Len() != 1 {
		return o, fmt.Errorf("saving the same commit twice: %v, %d keys", err, db.Len())
	}
	got, err := objects.GetCommit(db, sum)
	if err != nil || got.Message != com.Message {
		return o, fmt.Errorf("GetCommit: %v", err)
	}
	o.NonTrivial = len(c.Name) >= 256 || len(c.Email) >= 256 || len(c.Message) >= 256 || len(parents) >= 2 || (!c.Zero && c.ZoneMin != 0)
	o.Class("parents=%d", len(parents))
	if c.Zero {
		o.Class("zero-time")
	}
	return o, nil
}

func clipb(b []byte) []byte {
	if len(b) > 200 {
		return b[:200]
	}
	return b
}

// ---- blocks, block indices, tables ---------------------------------------------------------------

type BlockCase struct {
	Table gen.Table `json:"table"` // 1..255 rows make one block
	Big   []int     `json:"big"`   // per row: size of an extra-long first non-key cell (0 = none)
}

var subBlock = evid.Register("block", runBlock)

func TestPropBlock(t *testing.T) { rapid.Check(t, propBlock) }

func propBlock(t *rapid.T) {
	{
		tb := gen.GenTable(t, gen.TableOpts{MaxCols: 5, MaxRows: 255, Boundary: true, MaxBig: 3}, "t")
		c := BlockCase{Table: tb}
		if rapid.IntRange(0, 3).Draw(t, "bigrows") == 0 {
			for range tb.Rows {
				c.Big = append(c.Big, rapid.SampledFrom([]int{0, 0, 0, 40000, 65535, 65536, 70000}).Draw(t, "big"))
			}
		}
		subBlock.Check(t, c)
	}
}

func runBlock(c BlockCase) (o evid.Outcome, err error) {
	rows := gen.Rows(c.Table.Rows)
	over := false
	crossing := false
	for i := range rows {
		if i < len(c.Big) && c.Big[i] > 0 {
			rows[i] = append(rows[i], strings.Repeat("B", c.Big[i]), "tail")
			if c.Big[i] > 65535 {
				over = true
			}
		} else if len(c.Big) > 0 {
			rows[i] = append(rows[i], "", "tail")
		}
		n := 4
		for _, s := range rows[i] {
			n += 2 + len(s)
			if len(s) > 65535 {
				over = true
			}
		}
		if n > 65535 {
			crossing = true
		}
	}
	if len(rows) == 0 {
		o.Class("empty")
		return o, nil
	}
	var buf bytes.Buffer
	_, werr := objects.WriteBlockTo(objects.NewStrListEncoder(true), &buf, rows)
	if over {
		o.NonTrivial = true
		o.Class("over-limit")
		if werr == nil {
			return o, fmt.Errorf("a block with a cell over 65535 bytes was written without error")
		}
		return o, nil
	}
	if werr != nil {
		return o, fmt.Errorf("WriteBlockTo: %v", werr)
	}
	want := model.EncodeBlock(rows)
	if !bytes.Equal(buf.Bytes(), want) {
		return o, fmt.Errorf("block bytes differ from the reference encoding (%d vs %d bytes)", buf.Len(), len(want))
	}
	if err := objects.ValidateBlockBytes(buf.Bytes()); err != nil {
		return o, fmt.Errorf("ValidateBlockBytes rejects a freshly written block: %v", err)
	}
	_, back, err := objects.ReadBlockFrom(bytes.NewReader(buf.Bytes()))
	if err != nil {
		return o, fmt.Errorf("ReadBlockFrom: %v", err)
	}
	if len(back) != len(rows) {
		return o, fmt.Errorf("%d rows written, %d read", len(rows), len(back))
	}
	for i := range rows {
		if !model.RowsEqual(rows[i], back[i]) {
			return o, fmt.Errorf("row %d changed in the round trip", i)
		}
	}
	db := stores.NewMem()
	sum, _, err := objects.SaveBlock(db, nil, buf.Bytes())
	if err != nil {
		return o, fmt.Errorf("SaveBlock: %v", err)
	}
	if !bytes.Equal(sum, model.Sum(want)) {
		return o, fmt.Errorf("block identifier is not the hash of its (uncompressed) bytes")
	}
	if _, ok := db.Raw("blk/" + string(sum)); !ok {
		return o, fmt.Errorf("block not stored under blk/<hash>")
	}
	if _, _, err := objects.SaveBlock(db, nil, buf.Bytes()); err != nil || db.Len() != 1 {
		return o, fmt.Errorf("saving the same block twice: %v, %d keys", err, db.Len())
	}
	got, _, err := objects.GetBlock(db, nil, sum)
	if err != nil || len(got) != len(rows) {
		return o, fmt.Errorf("GetBlock: %v", err)
	}
	for i := range rows {
		if !model.RowsEqual(rows[i], got[i]) {
			return o, fmt.Errorf("GetBlock row %d differs", i)
		}
	}
	// block index: both builders agree, round-trips, stored under its hash
	pk := c.Table.PKu32()
	idx1, err := objects.IndexBlock(objects.NewStrListEncoder(true), model.NewHash(), rows, pk)
	if err != nil {
		return o, fmt.Errorf("IndexBlock: %v", err)
	}
	idx2, err := objects.IndexBlockFromBytes(objects.NewStrListDecoder(true), model.NewHash(), objects.NewStrListEditor(pk), buf.Bytes(), pk)
	if err != nil {
		return o, fmt.Errorf("IndexBlockFromBytes: %v", err)
	}
	var ib1, ib2 bytes.Buffer
	idx1.WriteTo(&ib1)
	idx2.WriteTo(&ib2)
	if !bytes.Equal(ib1.Bytes(), ib2.Bytes()) {
		// with duplicate keys inside one block the order of equal entries is unspecified
		dup := len(model.Canon(rows, c.Table.PK)) < len(rows)
		if !dup {
			return o, fmt.Errorf("IndexBlock and IndexBlockFromBytes disagree")
		}
	}
	_, ridx, err := objects.ReadBlockIndex(bytes.NewReader(ib1.Bytes()))
	if err != nil {
		return o, fmt.Errorf("ReadBlockIndex: %v", err)
	}
	var ib3 bytes.Buffer
	ridx.WriteTo(&ib3)
	if !bytes.Equal(ib3.Bytes(), ib1.Bytes()) {
		return o, fmt.Errorf("block index does not re-encode to the same bytes")
	}
	isum, _, err := objects.SaveBlockIndex(db, nil, ib1.Bytes())
	if err != nil || !bytes.Equal(isum, model.Sum(ib1.Bytes())) {
		return o, fmt.Errorf("SaveBlockIndex: %v / identifier is not the hash of the bytes", err)
	}
	gidx, _, err := objects.GetBlockIndex(db, nil, isum)
	if err != nil || gidx.Len() != len(rows) {
		return o, fmt.Errorf("GetBlockIndex: %v", err)
	}
	o.NonTrivial = crossing || len(rows) > 100
	if crossing {
		o.Class("row-over-64KiB")
	}
	o.Class("rows=%s", map[bool]string{true: "255", false: "<255"}[len(rows) == 255])
	return o, nil
}

type TableCase struct {
	NCols int   `json:"ncols"`
	PK    []int `json:"pk"`
	Rows  int   `json:"rows"`
}

var subTable = evid.Register("table", runTable)

func TestPropTable(t *testing.T) {
	rapid.Check(t, func(t *rapid.T) {
		c := TableCase{NCols: rapid.IntRange(0, 40).Draw(t, "ncols"), Rows: rapid.SampledFrom([]int{0, 1, 254, 255, 256, 510, 511, 1000, 70000, 261120, 261121, 600000}).Draw(t, "rows"), PK: []int{}}
		if c.NCols > 0 {
			for i, n := 0, rapid.IntRange(0, 3).Draw(t, "npk"); i < n; i++ {
				c.PK = append(c.PK, rapid.IntRange(0, c.NCols-1).Draw(t, "pk"))
			}
		}
		subTable.Check(t, c)
	})
}

func runTable(c TableCase) (o evid.Outcome, err error) {
	cols := make([]string, c.NCols)
	for i := range cols {
		cols[i] = fmt.Sprintf("col%d", i)
		if i%7 == 3 {
			cols[i] = strings.Repeat("c", 300) + fmt.Sprint(i)
		}
	}
	pk := make([]uint32, len(c.PK))
	for i, k := range c.PK {
		pk[i] = uint32(k)
	}
	tbl := objects.NewTable(cols, pk)
	tbl.RowsCount = uint32(c.Rows)
	nb := (c.Rows + 254) / 255
	for i := 0; i < nb; i++ {
		tbl.Blocks = append(tbl.Blocks, model.Sum([]byte(fmt.Sprint("b", i))))
		tbl.BlockIndices = append(tbl.BlockIndices, model.Sum([]byte(fmt.Sprint("i", i))))
	}
	var buf bytes.Buffer
	if _, err := tbl.WriteTo(&buf); err != nil {
		return o, fmt.Errorf("Table.WriteTo: %v", err)
	}
	want := model.EncodeTable(cols, pk, uint32(c.Rows), tbl.Blocks, tbl.BlockIndices)
	if !bytes.Equal(buf.Bytes(), want) {
		return o, fmt.Errorf("table bytes differ from the reference encoding")
	}
	_, back, err := objects.ReadTableFrom(bytes.NewReader(buf.Bytes()))
	if err != nil {
		return o, fmt.Errorf("ReadTableFrom: %v", err)
	}
	if !model.RowsEqual(back.Columns, cols) || len(back.PK) != len(pk) || back.RowsCount != tbl.RowsCount || len(back.Blocks) != nb || len(back.BlockIndices) != nb {
		return o, fmt.Errorf("table fields changed in the round trip")
	}
	for i := range pk {
		if back.PK[i] != pk[i] {
			return o, fmt.Errorf("pk changed")
		}
	}
	for i := 0; i < nb; i++ {
		if !bytes.Equal(back.Blocks[i], tbl.Blocks[i]) || !bytes.Equal(back.BlockIndices[i], tbl.BlockIndices[i]) {
			return o, fmt.Errorf("block sum %d changed", i)
		}
	}
	var buf2 bytes.Buffer
	back.WriteTo(&buf2)
	if !bytes.Equal(buf2.Bytes(), buf.Bytes()) {
		return o, fmt.Errorf("table does not re-encode to the same bytes")
	}
	db := stores.NewMem()
	sum, err := objects.SaveTable(db, buf.Bytes())
	if err != nil || !bytes.Equal(sum, model.Sum(want)) {
		return o, fmt.Errorf("SaveTable: %v / identifier is not the hash of the bytes", err)
	}
	if raw, ok := db.Raw("tbl/" + string(sum)); !ok || !bytes.Equal(raw, want) {
		return o, fmt.Errorf("table not stored under tbl/<hash>")
	}
	if _, err := objects.SaveTable(db, buf.Bytes()); err != nil || db.Len() != 1 {
		return o, fmt.Errorf("saving the same table twice: %v, %d keys", err, db.Len())
	}
	o.NonTrivial = c.NCols > 0 && nb >= 1
	o.Class("blocks=%d", nb)
	return o, nil
}

// ---- table profile -------------------------------------------------------------------------------

type ProfCol struct {
	Name   gen.Cell  `json:"name"`
	NA     uint32    `json:"na"`
	Floats []string  `json:"floats"` // five optional stats: "" absent, else one of the specials
	Lens   [3]uint16 `json:"lens"`
	Top    []string  `json:"top"`
	HasTop bool      `json:"has_top"`
	Pct    []string  `json:"pct"`
	HasPct bool      `json:"has_pct"`
}

type ProfCase struct {
	Rows uint32    `json:"rows"`
	Cols []ProfCol `json:"cols"`
}

var subProf = evid.Register("profile", runProfile)

var floatNames = []string{"", "0", "-0", "1.5", "NaN", "+Inf", "-Inf", "max", "tiny"}

func fval(s string) float64 {
	switch s {
	case "0":
		return 0
	case "-0":
		return math.Copysign(0, -1)
	case "1.5":
		return 1.5
	case "NaN":
		return math.NaN()
	case "+Inf":
		return math.Inf(1)
	case "-Inf":
		return math.Inf(-1)
	case "max":
		return math.MaxFloat64
	}
	return math.SmallestNonzeroFloat64
}

func TestPropProfile(t *testing.T) {
	rapid.Check(t, func(t *rapid.T) {
		c := ProfCase{Rows: rapid.Uint32().Draw(t, "rows")}
		for i, n := 0, rapid.IntRange(0, 6).Draw(t, "ncols"); i < n; i++ {
			pc := ProfCol{Name: gen.Cell(rapid.SampledFrom(texts).Draw(t, "name")), NA: rapid.Uint32().Draw(t, "na")}
			for k := 0; k < 5; k++ {
				pc.Floats = append(pc.Floats, rapid.SampledFrom(floatNames).Draw(t, "f"))
			}
			pc.Lens = [3]uint16{rapid.Uint16().Draw(t, "l0"), rapid.Uint16().Draw(t, "l1"), rapid.Uint16().Draw(t, "l2")}
			pc.HasTop = rapid.Bool().Draw(t, "hastop")
			for k, m := 0, rapid.IntRange(0, 4).Draw(t, "ntop"); pc.HasTop && k < m; k++ {
				pc.Top = append(pc.Top, rapid.SampledFrom(texts).Draw(t, "top"))
			}
			pc.HasPct = rapid.Bool().Draw(t, "haspct")
			for k, m := 0, rapid.IntRange(0, 5).Draw(t, "npct"); pc.HasPct && k < m; k++ {
				pc.Pct = append(pc.Pct, rapid.SampledFrom(floatNames[1:]).Draw(t, "pct"))
			}
			c.Cols = append(c.Cols, pc)
		}
		subProf.Check(t, c)
	})
}

func runProfile(c ProfCase) (o evid.Outcome, err error) {
	p := &objects.TableProfile{RowsCount: c.Rows}
	for _, pc := range c.Cols {
		col := &objects.ColumnProfile{Name: string(pc.Name), NACount: pc.NA, MinStrLen: pc.Lens[0], MaxStrLen: pc.Lens[1], AvgStrLen: pc.Lens[2]}
		ptrs := []**float64{&col.Min, &col.Max, &col.Mean, &col.Median, &col.StdDeviation}
		for i, f := range pc.Floats {
			if f != "" {
				v := fval(f)
				*ptrs[i] = &v
			}
		}
		if pc.HasTop {
			col.TopValues = objects.ValueCounts{}
			for i, s := range pc.Top {
				col.TopValues = append(col.TopValues, objects.ValueCount{Value: s, Count: uint32(i * 7)})
			}
		}
		if pc.HasPct {
			col.Percentiles = []float64{}
			for _, s := range pc.Pct {
				col.Percentiles = append(col.Percentiles, fval(s))
			}
		}
		p.Columns = append(p.Columns, col)
	}
	var buf bytes.Buffer
	if _, err := p.WriteTo(&buf); err != nil {
		return o, fmt.Errorf("TableProfile.WriteTo: %v", err)
	}
	back := &objects.TableProfile{}
	if _, err := back.ReadFrom(bytes.NewReader(buf.Bytes())); err != nil {
		return o, fmt.Errorf("TableProfile.ReadFrom of freshly written bytes: %v", err)
	}
	var buf2 bytes.Buffer
	if _, err := back.WriteTo(&buf2); err != nil || !bytes.Equal(buf2.Bytes(), buf.Bytes()) {
		return o, fmt.Errorf("profile does not re-encode to the same bytes (%v): %d vs %d bytes", err, buf2.Len(), buf.Len())
	}
	if back.RowsCount != p.RowsCount || len(back.Columns) != len(p.Columns) {
		return o, fmt.Errorf("profile header changed in the round trip")
	}
	for i, col := range p.Columns {
		b := back.Columns[i]
		if b.Name != col.Name || b.NACount != col.NACount || b.MinStrLen != col.MinStrLen || b.MaxStrLen != col.MaxStrLen || b.AvgStrLen != col.AvgStrLen {
			return o, fmt.Errorf("column %d scalar fields changed", i)
		}
		pa := []*float64{col.Min, col.Max, col.Mean, col.Median, col.StdDeviation}
		pb := []*float64{b.Min, b.Max, b.Mean, b.Median, b.StdDeviation}
		for k := range pa {
			if (pa[k] == nil) != (pb[k] == nil) {
				return o, fmt.Errorf("column %d: optional stat %d presence changed", i, k)
			}
			if pa[k] != nil && math.Float64bits(*pa[k]) != math.Float64bits(*pb[k]) {
				return o, fmt.Errorf("column %d: stat %d changed: %v -> %v", i, k, *pa[k], *pb[k])
			}
		}
		if len(b.TopValues) != len(col.TopValues) || len(b.Percentiles) != len(col.Percentiles) {
			return o, fmt.Errorf("column %d: list lengths changed", i)
		}
		for k := range col.TopValues {
			if b.TopValues[k] != col.TopValues[k] {
				return o, fmt.Errorf("column %d: top value %d changed", i, k)
			}
		}
		for k := range col.Percentiles {
			if math.Float64bits(b.Percentiles[k]) != math.Float64bits(col.Percentiles[k]) {
				return o, fmt.Errorf("column %d: percentile %d changed", i, k)
			}
		}
	}
	db := stores.NewMem()
	tsum := sum16(9)
	if err := objects.SaveTableProfile(db, tsum, buf.Bytes()); err != nil {
		return o, fmt.Errorf("SaveTableProfile: %v", err)
	}
	if _, err := objects.GetTableProfile(db, tsum); err != nil {
		return o, fmt.Errorf("GetTableProfile: %v", err)
	}
	o.NonTrivial = len(c.Cols) > 0
	o.Class("cols=%d", len(c.Cols))
	return o, nil
}

// ---- packfile object header ----------------------------------------------------------------------

type HeaderCase struct {
	Type int    `json:"type"`
	Len  uint64 `json:"len"`
}

var subHeader = evid.Register("packfile-header", runHeader)

func runHeader(c HeaderCase) (o evid.Outcome, err error) {
	enc := packfile.VerifEncodeObjTypeAndLen(c.Type, c.Len)
	want := model.EncodeObjHeader(c.Type, c.Len)
	if !bytes.Equal(enc, want) {
		return o, fmt.Errorf("header of (type %d, len %d) = %x, reference %x", c.Type, c.Len, enc, want)
	}
	ty, l, err := packfile.VerifDecodeObjTypeAndLen(bytes.NewReader(append(enc, 0xAA, 0xBB)))
	if err != nil {
		return o, fmt.Errorf("decode(encode(%d,%d)): %v", c.Type, c.Len, err)
	}
	if ty != c.Type || l != c.Len {
		return o, fmt.Errorf("decode(encode(%d,%d)) = (%d,%d)", c.Type, c.Len, ty, l)
	}
	o.NonTrivial = c.Len >= 16
	return o, nil
}

func TestPropHeader(t *testing.T) {
	rapid.Check(t, func(t *rapid.T) {
		c := HeaderCase{Type: rapid.IntRange(1, 3).Draw(t, "type")}
		switch rapid.IntRange(0, 3).Draw(t, "kind") {
		case 0:
			c.Len = uint64(rapid.IntRange(0, 70000).Draw(t, "small"))
		case 1:
			sh := rapid.IntRange(0, 63).Draw(t, "shift")
			c.Len = uint64(1)<<uint(sh) + uint64(rapid.IntRange(-1, 1).Draw(t, "delta")+1) - 1
		case 2:
			c.Len = uint64(rapid.Uint32().Draw(t, "u32"))
		default:
			c.Len = rapid.Uint64().Draw(t, "u64")
		}
		subHeader.Check(t, c)
	})
}

// TestExhaustiveHeader: every length below 2^16 (quick) / 2^20 (thorough) for every object type,
// plus every power of two +-1 up to 2^63.
func TestExhaustiveHeader(t *testing.T) {
	max := uint64(1) << uint(evid.Scale(16, 20))
	for ty := 1; ty <= 3; ty++ {
		for l := uint64(0); l < max; l++ {
			if _, err := runHeader(HeaderCase{ty, l}); err != nil {
				subHeader.Check(t, HeaderCase{ty, l})
			}
		}
		for sh := 0; sh < 64; sh++ {
			for d := -1; d <= 1; d++ {
				subHeader.Check(t, HeaderCase{ty, uint64(1)<<uint(sh) + uint64(d+1) - 1})
			}
		}
	}
}

// end-to-end through the exported writer/reader for moderate lengths
type PackCase struct {
	Objs []HeaderCase `json:"objs"`
}

var subPack = evid.Register("packfile", runPack)

func TestPropPackfile(t *testing.T) {
	rapid.Check(t, func(t *rapid.T) {
		c := PackCase{}
		for i, n := 0, rapid.IntRange(0, 5).Draw(t, "n"); i < n; i++ {
			c.Objs = append(c.Objs, HeaderCase{Type: rapid.IntRange(1, 3).Draw(t, "type"), Len: uint64(rapid.SampledFrom([]int{0, 1, 15, 16, 17, 127, 128, 2047, 2048, 2049, 65535, 65536, 262143, 262144, 1 << 20}).Draw(t, "len"))})
		}
		subPack.Check(t, c)
	})
}

func runPack(c PackCase) (o evid.Outcome, err error) {
	var buf bytes.Buffer
	w, err := packfile.NewPackfileWriter(&buf)
	if err != nil {
		return o, fmt.Errorf("NewPackfileWriter: %v", err)
	}
	for i, ob := range c.Objs {
		body := bytes.Repeat([]byte{byte(i + 1)}, int(ob.Len))
		if _, err := w.WriteObject(ob.Type, body); err != nil {
			return o, fmt.Errorf("WriteObject(%d bytes): %v", ob.Len, err)
		}
	}
	r, err := packfile.NewPackfileReader(objects.NopCloser(bytes.NewReader(buf.Bytes())))
	if err != nil {
		return o, fmt.Errorf("NewPackfileReader: %v", err)
	}
	for i, ob := range c.Objs {
		ty, b, err := r.ReadObject()
		if err != nil {
			return o, fmt.Errorf("ReadObject #%d (len %d): %v", i, ob.Len, err)
		}
		if ty != ob.Type || uint64(len(b)) != ob.Len || (len(b) > 0 && (b[0] != byte(i+1) || b[len(b)-1] != byte(i+1))) {
			return o, fmt.Errorf("object #%d (type %d, %d bytes) read back as type %d, %d bytes", i, ob.Type, ob.Len, ty, len(b))
		}
	}
	if _, _, err := r.ReadObject(); err == nil {
		return o, fmt.Errorf("reading past the last object returned no error")
	}
	o.NonTrivial = len(c.Objs) >= 2
	return o, nil
}

func TestReplay(t *testing.T) { evid.Replay(t) }
