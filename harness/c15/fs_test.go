package c15

import (
	"fmt"
	"os"
	"testing"

	reffs "github.com/wrgl/wrgl/pkg/ref/fs"
	"pgregory.net/rapid"

	"verifharness/internal/evid"
)

// The file store (pkg/ref/fs) keeps one file per ref and one per log, and implements set,
// logged set, get, delete, rename, copy, log-read and listing of one directory-aligned prefix
// (its FilterKey walks the directory named by the first prefix and has no notion of excluded
// prefixes; transactions are "not implemented"). The generator therefore
//   - uses names none of which is a path-prefix of another (a ref cannot be a file and a
//     directory at once - the same restriction git has),
//   - lists only by "" or a prefix ending in "/", with no excluded prefixes,
// and otherwise drives the same model as the SQL store.
var fsNames = []string{
	"heads/ab", "heads/a_", "heads/a%", "heads/AB", "heads/a/b", "heads/abc", "heads/Ab",
	"tags/ab", "tags/a_", "tags/A_",
	"remotes/o_/x", "remotes/ox/x", "remotes/O_/x", "remotes/o%/x", "remotes/o/x", "remotes/o_/w/z", "remotes/ox/y", "remotes/oxx/x",
	"txs/" + tx1 + "/b", "txs/" + tx2 + "/b", "txs/" + tx1 + "/B",
	"custom/x", "Heads/ab",
}

var fsPrefixes = []string{"", "heads/", "heads/a/", "tags/", "remotes/", "remotes/o/", "remotes/o_/", "remotes/O_/", "remotes/o%/", "remotes/o_/w/", "txs/", "txs/" + tx1 + "/", "custom/", "Heads/", "nothing/"}

var subFS = evid.Register("fs-store", runFS)

func genOpsFS(t *rapid.T) Case {
	n := rapid.IntRange(1, evid.Scale(40, 120)).Draw(t, "nops")
	c := Case{}
	name := func(l string) string { return rapid.SampledFrom(fsNames).Draw(t, l) }
	for i := 0; i < n; i++ {
		k := rapid.IntRange(0, 99).Draw(t, "kind")
		switch {
		case k < 15:
			c.Ops = append(c.Ops, Op{K: "set", A: name("a"), V: rapid.IntRange(0, 5).Draw(t, "v")})
		case k < 35:
			c.Ops = append(c.Ops, Op{K: "setlog", A: name("a"), V: rapid.IntRange(0, 5).Draw(t, "v")})
		case k < 45:
			c.Ops = append(c.Ops, Op{K: "burst", A: name("a"), V: rapid.SampledFrom([]int{8, 9, 17, 30, 3, 60}).Draw(t, "burst")})
		case k < 53:
			c.Ops = append(c.Ops, Op{K: "delete", A: name("a")})
		case k < 61:
			c.Ops = append(c.Ops, Op{K: "rename", A: name("a"), B: name("b")})
		case k < 69:
			c.Ops = append(c.Ops, Op{K: "copy", A: name("a"), B: name("b")})
		case k < 80:
			op := Op{K: "filter", P: []string{}, NP: []string{}}
			if rapid.IntRange(0, 4).Draw(t, "noprefix") != 0 {
				op.P = []string{rapid.SampledFrom(fsPrefixes).Draw(t, "p")}
			}
			c.Ops = append(c.Ops, op)
		case k < 85:
			c.Ops = append(c.Ops, Op{K: "listremote", A: rapid.SampledFrom(remotes).Draw(t, "remote")})
		case k < 91:
			c.Ops = append(c.Ops, Op{K: "delremote", A: rapid.SampledFrom(remotes).Draw(t, "remote")})
		case k < 95:
			c.Ops = append(c.Ops, Op{K: "renremote", A: rapid.SampledFrom(remotes).Draw(t, "remote"), B: rapid.SampledFrom(remotes).Draw(t, "remote2")})
		case k < 98:
			c.Ops = append(c.Ops, Op{K: "deltx", A: rapid.SampledFrom([]string{tx1, tx2}).Draw(t, "tx")})
		default:
			c.Ops = append(c.Ops, Op{K: "listheadstags"})
		}
	}
	return c
}

func runFS(c Case) (o evid.Outcome, err error) {
	dir, err := os.MkdirTemp(evid.TempDir(), "reffs")
	if err != nil {
		return o, fmt.Errorf("HARNESS: %v", err)
	}
	defer os.RemoveAll(dir)
	return runOn(c, reffs.NewStore(dir), true)
}

func TestPropFSStore(t *testing.T) {
	rapid.Check(t, func(t *rapid.T) { subFS.Check(t, genOpsFS(t)) })
}
