// C15 — the ref store behaves as a map from exact names to commits with faithful logs.
package c15

import (
	"bytes"
	"errors"
	"fmt"
	"io"
	"sort"
	"strings"
	"testing"
	"time"

	"github.com/google/uuid"
	"github.com/wrgl/wrgl/pkg/ref"
	"pgregory.net/rapid"

	"verifharness/internal/evid"
	"verifharness/internal/stores"
)

func TestMain(m *testing.M) { evid.Main("C15", m) }

const tx1 = "7c9e6679-7425-40de-944b-e07fc1f90ae7"
const tx2 = "7c9e6679-7425-40de-944b-e07fc1f90ae8"

// names built to collide under SQL LIKE: '_' and '%' wildcards, ASCII case folding, nested paths,
// names that are prefixes of one another
var names = []string{
	"heads/ab", "heads/a_", "heads/a%", "heads/AB", "heads/a/b", "heads/a", "heads/abc", "heads/Ab",
	"tags/ab", "tags/a_", "tags/A_",
	"remotes/o_/x", "remotes/ox/x", "remotes/O_/x", "remotes/o%/x", "remotes/o/x", "remotes/o_/y/z", "remotes/ox/y", "remotes/oxx/x", "remotes/o_",
	"txs/" + tx1 + "/b", "txs/" + tx2 + "/b", "txs/" + tx1 + "/B",
	"custom/x", "Heads/ab",
	// characters that are wildcards for GLOB / regular expressions
	"heads/a*", "heads/a?", "heads/[ab]", "remotes/o?/x", "remotes/o*/x",
}

var prefixes = []string{"", "heads/", "heads/a", "heads/a_", "heads/a%", "heads/A", "heads/ab", "tags/", "tags/a_", "remotes/", "remotes/o", "remotes/o_", "remotes/o_/", "remotes/O", "remotes/o%/", "txs/", "txs/" + tx1 + "/", "h", "H", "%", "_", "heads/a*", "heads/a?", "heads/[ab]", "heads/[", "remotes/o?/", "remotes/o*/", "*", "?"}

var remotes = []string{"o_", "ox", "O_", "o%", "o", "oxx", "zz", "o?", "o*"}

type Op struct {
	K  string   `json:"k"`
	A  string   `json:"a,omitempty"`
	B  string   `json:"b,omitempty"`
	V  int      `json:"v,omitempty"`
	B2 int      `json:"v2,omitempty"`
	P  []string `json:"p,omitempty"`
	NP []string `json:"np,omitempty"`
}

type Case struct {
	Ops []Op `json:"ops"`
}

var sub = evid.Register("refstore", run)

func val(i int) []byte { return bytes.Repeat([]byte{byte(i + 1)}, 16) }

func genOps(t *rapid.T) Case {
	n := rapid.IntRange(1, evid.Scale(40, 120)).Draw(t, "nops")
	c := Case{}
	name := func(l string) string { return rapid.SampledFrom(names).Draw(t, l) }
	plist := func(l string, max int) []string {
		k := rapid.IntRange(0, max).Draw(t, l+"n")
		out := []string{}
		for i := 0; i < k; i++ {
			out = append(out, rapid.SampledFrom(prefixes).Draw(t, l))
		}
		return out
	}
	for i := 0; i < n; i++ {
		k := rapid.IntRange(0, 99).Draw(t, "kind")
		switch {
		case k < 18:
			c.Ops = append(c.Ops, Op{K: "set", A: name("a"), V: rapid.IntRange(0, 5).Draw(t, "v")})
		case k < 40:
			c.Ops = append(c.Ops, Op{K: "setlog", A: name("a"), V: rapid.IntRange(0, 5).Draw(t, "v")})
		case k < 41:
			c.Ops = append(c.Ops, Op{K: "burst", A: name("a"), V: rapid.SampledFrom([]int{8, 9, 17, 30, 3}).Draw(t, "burst")})
		case k < 42:
			c.Ops = append(c.Ops, Op{K: "racelog", A: name("a"), V: rapid.IntRange(0, 5).Draw(t, "v"), B2: rapid.IntRange(0, 5).Draw(t, "v2")})
		case k < 50:
			c.Ops = append(c.Ops, Op{K: "delete", A: name("a")})
		case k < 56:
			c.Ops = append(c.Ops, Op{K: "rename", A: name("a"), B: name("b")})
		case k < 62:
			c.Ops = append(c.Ops, Op{K: "copy", A: name("a"), B: name("b")})
		case k < 74:
			c.Ops = append(c.Ops, Op{K: "filter", P: plist("p", 2), NP: plist("np", 2)})
		case k < 80:
			c.Ops = append(c.Ops, Op{K: "listlocal", P: plist("p", 2), NP: plist("np", 1)})
		case k < 85:
			c.Ops = append(c.Ops, Op{K: "listremote", A: rapid.SampledFrom(remotes).Draw(t, "remote")})
		case k < 91:
			c.Ops = append(c.Ops, Op{K: "delremote", A: rapid.SampledFrom(remotes).Draw(t, "remote")})
		case k < 95:
			c.Ops = append(c.Ops, Op{K: "renremote", A: rapid.SampledFrom(remotes).Draw(t, "remote"), B: rapid.SampledFrom(remotes).Draw(t, "remote2")})
		case k < 98:
			c.Ops = append(c.Ops, Op{K: "deltx", A: rapid.SampledFrom([]string{tx1, tx2}).Draw(t, "tx")})
		default:
			c.Ops = append(c.Ops, Op{K: "listheadstags"})
		}
	}
	return c
}

func TestPropRefStore(t *testing.T) {
	rapid.Check(t, func(t *rapid.T) { sub.Check(t, genOps(t)) })
}

func TestReplay(t *testing.T) { evid.Replay(t) }

type logEntry struct {
	Old, New []byte
	Action   string
	Tx       string // transaction id recorded with the entry ("" none)
}

type modelT struct {
	vals map[string][]byte
	logs map[string][]logEntry
}

func (m *modelT) match(p, np []string) map[string][]byte {
	out := map[string][]byte{}
	for k, v := range m.vals {
		ok := len(p) == 0
		for _, x := range p {
			if strings.HasPrefix(k, x) {
				ok = true
			}
		}
		for _, x := range np {
			if strings.HasPrefix(k, x) {
				ok = false
			}
		}
		if ok {
			out[k] = v
		}
	}
	return out
}

func sameMap(got map[string][]byte, want map[string][]byte) error {
	for k, v := range want {
		g, ok := got[k]
		if !ok {
			return fmt.Errorf("%q missing from the result (got %v)", k, keys(got))
		}
		if !bytes.Equal(g, v) {
			return fmt.Errorf("%q = %x, want %x", k, g[:1], v[:1])
		}
	}
	for k := range got {
		if _, ok := want[k]; !ok {
			return fmt.Errorf("%q is in the result but does not match literally (want %v)", k, keys(want))
		}
	}
	return nil
}

func keys(m map[string][]byte) []string {
	out := []string{}
	for k := range m {
		out = append(out, k)
	}
	sort.Strings(out)
	return out
}

func strip(m map[string][]byte, prefix string) map[string][]byte {
	out := map[string][]byte{}
	for k, v := range m {
		out[k[len(prefix):]] = v
	}
	return out
}

func run(c Case) (o evid.Outcome, err error) {
	rs, _, closeFn, err := stores.NewRefStore()
	if err != nil {
		return o, fmt.Errorf("HARNESS: %v", err)
	}
	defer closeFn()
	return runOn(c, rs, false)
}

// runOn drives one store and the map model side by side. fsMode marks the file store, whose
// generator only issues the operations that store implements (see fs_test.go).
func runOn(c Case, rs ref.Store, fsMode bool) (o evid.Outcome, err error) {
	m := &modelT{vals: map[string][]byte{}, logs: map[string][]logEntry{}}
	tricky := false
	longLog := false
	logNames := names
	if fsMode {
		logNames = fsNames
	}

	verify := func(step int, op Op) error {
		all, err := rs.Filter(nil, nil)
		if err != nil {
			return fmt.Errorf("step %d: Filter(nil,nil): %v", step, err)
		}
		if err := sameMap(all, m.vals); err != nil {
			return fmt.Errorf("step %d after %+v: store content differs from the map model: %v", step, op, err)
		}
		for _, name := range logNames {
			want := m.logs[name]
			r, err := rs.LogReader(name)
			if err != nil {
				if len(want) == 0 {
					continue
				}
				return fmt.Errorf("step %d after %+v: LogReader(%q): %v, model has %d entries", step, op, name, err, len(want))
			}
			var got []logEntry
			for {
				rl, err := r.Read()
				if errors.Is(err, io.EOF) {
					break
				}
				if err != nil {
					return fmt.Errorf("step %d: reading log of %q: %v", step, name, err)
				}
				tx := ""
				if rl.Txid != nil {
					tx = rl.Txid.String()
				}
				got = append(got, logEntry{rl.OldOID, rl.NewOID, rl.Action, tx})
				if len(got) > len(want)+3 {
					break
				}
			}
			r.Close()
			if len(got) != len(want) {
				return fmt.Errorf("step %d after %+v: log of %q has %d entries, model %d", step, op, name, len(got), len(want))
			}
			for i := range got {
				w := want[len(want)-1-i] // newest first
				if got[i].Tx != w.Tx {
					return fmt.Errorf("step %d after %+v: log of %q entry %d (newest first, %s) carries transaction id %q, it was written with %q", step, op, name, i, w.Action, got[i].Tx, w.Tx)
				}
				if !bytes.Equal(got[i].New, w.New) || !bytes.Equal(got[i].Old, w.Old) || got[i].Action != w.Action {
					return fmt.Errorf("step %d after %+v: log of %q entry %d (newest first) = {old %x new %x %s}, model {old %x new %x %s}", step, op, name, i, first(got[i].Old), first(got[i].New), got[i].Action, first(w.Old), first(w.New), w.Action)
				}
			}
		}
		return nil
	}

	for step, op := range c.Ops {
		switch op.K {
		case "set":
			if err := rs.Set(op.A, val(op.V)); err != nil {
				return o, fmt.Errorf("step %d: Set(%q): %v", step, op.A, err)
			}
			m.vals[op.A] = val(op.V)
		case "setlog":
			action := fmt.Sprintf("act%d", step)
			// every other logged set belongs to a transaction (stores that have transactions)
			var txid *uuid.UUID
			tx := ""
			if op.V%2 == 1 {
				id := uuid.NewSHA1(uuid.Nil, []byte(fmt.Sprintf("tx-%d", step)))
				if _, err := rs.NewTransaction(&ref.Transaction{ID: id, Status: ref.TSInProgress, Begin: time.Unix(1600000000+int64(step), 0)}); err == nil {
					txid, tx = &id, id.String()
					o.Class("log-entry-with-transaction-id")
				}
			}
			if err := ref.SaveRef(rs, op.A, val(op.V), "n", "e", action, "msg", txid); err != nil {
				return o, fmt.Errorf("step %d: SaveRef(%q): %v", step, op.A, err)
			}
			m.logs[op.A] = append(m.logs[op.A], logEntry{m.vals[op.A], val(op.V), action, tx})
			m.vals[op.A] = val(op.V)
		case "burst":
			// many logged sets on one name: the log outgrows any read buffer
			for i := 0; i < op.V; i++ {
				action := fmt.Sprintf("burst%d-%d %s", step, i, strings.Repeat("m", (i*37)%90))
				v := val((step + i) % 6)
				if err := ref.SaveRef(rs, op.A, v, "n", "e", action, "msg", nil); err != nil {
					return o, fmt.Errorf("step %d: SaveRef(%q) #%d: %v", step, op.A, i, err)
				}
				m.logs[op.A] = append(m.logs[op.A], logEntry{m.vals[op.A], v, action, ""})
				m.vals[op.A] = v
			}
			if op.V >= 8 {
				longLog = true
			}
		case "racelog":
			// two writers on one name: the second writer's logged set lands between the first
			// writer's read of the current value (ref.SaveRef reads it before SetWithLog) and its
			// write. Each log entry's old value must still be the value the ref held just before.
			inner := fmt.Sprintf("inner%d", step)
			outer := fmt.Sprintf("outer%d", step)
			var ierr error
			w := &getThen{Store: rs, then: func() {
				ierr = ref.SaveRef(rs, op.A, val(op.B2), "n", "e", inner, "msg", nil)
			}}
			if err := ref.SaveRef(w, op.A, val(op.V), "n", "e", outer, "msg", nil); err != nil || ierr != nil {
				return o, fmt.Errorf("step %d: SaveRef(%q) with a concurrent writer: %v / %v", step, op.A, err, ierr)
			}
			m.logs[op.A] = append(m.logs[op.A], logEntry{m.vals[op.A], val(op.B2), inner, ""}, logEntry{val(op.B2), val(op.V), outer, ""})
			m.vals[op.A] = val(op.V)
		case "delete":
			err := rs.Delete(op.A)
			if _, ok := m.vals[op.A]; ok && err != nil {
				return o, fmt.Errorf("step %d: Delete(%q): %v", step, op.A, err)
			}
			delete(m.vals, op.A)
			delete(m.logs, op.A)
		case "rename", "copy":
			var err error
			if op.K == "rename" {
				_, err = ref.RenameRef(rs, op.A, op.B)
			} else {
				_, err = ref.CopyRef(rs, op.A, op.B)
			}
			_, srcOK := m.vals[op.A]
			_, dstOK := m.vals[op.B]
			switch {
			case !srcOK:
				if err == nil {
					return o, fmt.Errorf("step %d: %s of missing ref %q succeeded", step, op.K, op.A)
				}
			case op.A == op.B || dstOK:
				// onto an existing name: error-and-unchanged or plain map behaviour
				if err == nil {
					v, l := m.vals[op.A], append([]logEntry{}, m.logs[op.A]...)
					if op.K == "rename" && op.A != op.B {
						delete(m.vals, op.A)
						delete(m.logs, op.A)
					}
					m.vals[op.B] = v
					m.logs[op.B] = l
				}
			default:
				if err != nil {
					return o, fmt.Errorf("step %d: %s(%q -> %q): %v", step, op.K, op.A, op.B, err)
				}
				m.vals[op.B] = m.vals[op.A]
				m.logs[op.B] = append([]logEntry{}, m.logs[op.A]...)
				if op.K == "rename" {
					delete(m.vals, op.A)
					delete(m.logs, op.A)
				}
			}
		case "filter":
			got, err := rs.Filter(op.P, op.NP)
			if err != nil {
				return o, fmt.Errorf("step %d: Filter: %v", step, err)
			}
			if err := sameMap(got, m.match(op.P, op.NP)); err != nil {
				return o, fmt.Errorf("step %d: Filter(%q, not %q): %v", step, op.P, op.NP, err)
			}
			ks, err := rs.FilterKey(op.P, op.NP)
			if err != nil {
				return o, fmt.Errorf("step %d: FilterKey: %v", step, err)
			}
			want := keys(m.match(op.P, op.NP))
			sort.Strings(ks)
			if strings.Join(ks, "\n") != strings.Join(want, "\n") {
				return o, fmt.Errorf("step %d: FilterKey(%q, not %q) = %q, want %q", step, op.P, op.NP, ks, want)
			}
		case "listlocal":
			got, err := ref.ListLocalRefs(rs, op.P, op.NP)
			if err != nil {
				return o, fmt.Errorf("step %d: ListLocalRefs: %v", step, err)
			}
			if err := sameMap(got, m.match(op.P, append(append([]string{}, op.NP...), "remotes/"))); err != nil {
				return o, fmt.Errorf("step %d: ListLocalRefs(%q, not %q): %v", step, op.P, op.NP, err)
			}
		case "listremote":
			got, err := ref.ListRemoteRefs(rs, op.A)
			if err != nil {
				return o, fmt.Errorf("step %d: ListRemoteRefs: %v", step, err)
			}
			p := "remotes/" + op.A + "/"
			if err := sameMap(got, strip(m.match([]string{p}, nil), p)); err != nil {
				return o, fmt.Errorf("step %d: ListRemoteRefs(%q): %v", step, op.A, err)
			}
		case "listheadstags":
			got, err := ref.ListHeads(rs)
			if err != nil {
				return o, fmt.Errorf("step %d: ListHeads: %v", step, err)
			}
			if err := sameMap(got, strip(m.match([]string{"heads/"}, nil), "heads/")); err != nil {
				return o, fmt.Errorf("step %d: ListHeads: %v", step, err)
			}
			got, err = ref.ListTags(rs)
			if err != nil {
				return o, fmt.Errorf("step %d: ListTags: %v", step, err)
			}
			if err := sameMap(got, strip(m.match([]string{"tags/"}, nil), "tags/")); err != nil {
				return o, fmt.Errorf("step %d: ListTags: %v", step, err)
			}
		case "delremote":
			if err := ref.DeleteAllRemoteRefs(rs, op.A); err != nil {
				return o, fmt.Errorf("step %d: DeleteAllRemoteRefs(%q): %v", step, op.A, err)
			}
			for k := range m.match([]string{"remotes/" + op.A + "/"}, nil) {
				delete(m.vals, k)
				delete(m.logs, k)
			}
		case "renremote":
			src := m.match([]string{"remotes/" + op.A + "/"}, nil)
			dst := m.match([]string{"remotes/" + op.B + "/"}, nil)
			if op.A == op.B || len(dst) > 0 {
				continue // outcome of renaming onto an occupied remote is not specified
			}
			if err := ref.RenameAllRemoteRefs(rs, op.A, op.B); err != nil {
				return o, fmt.Errorf("step %d: RenameAllRemoteRefs(%q,%q): %v", step, op.A, op.B, err)
			}
			for k := range src {
				nk := "remotes/" + op.B + "/" + k[len("remotes/"+op.A+"/"):]
				m.vals[nk] = m.vals[k]
				m.logs[nk] = m.logs[k]
				delete(m.vals, k)
				delete(m.logs, k)
			}
		case "deltx":
			id := uuid.MustParse(op.A)
			if err := ref.DeleteTransactionRefs(rs, id); err != nil {
				return o, fmt.Errorf("step %d: DeleteTransactionRefs: %v", step, err)
			}
			for k := range m.match([]string{"txs/" + op.A + "/"}, nil) {
				delete(m.vals, k)
				delete(m.logs, k)
			}
		}
		// non-triviality: a prefix operation whose prefix contains a wildcard / upper-case char or
		// is a proper prefix of another live name, with at least two live names
		if len(m.vals) >= 2 {
			for _, p := range append(append([]string{}, op.P...), op.NP...) {
				if strings.ContainsAny(p, "_%*?[ABCDEFGHIJKLMNOPQRSTUVWXYZ") {
					tricky = true
				}
			}
			if (op.K == "delremote" || op.K == "renremote" || op.K == "listremote") && strings.ContainsAny(op.A, "_%O*?") {
				tricky = true
			}
		}
		if err := verify(step, op); err != nil {
			return o, err
		}
	}
	o.NonTrivial = tricky
	if fsMode {
		o.NonTrivial = longLog
	}
	if longLog {
		o.Class("log>1KiB")
	}
	o.Class("ops=%s", bucket(len(c.Ops)))
	return o, nil
}

// getThen runs a callback right after the first Get (once): the window between a caller's read of
// the current value and its write.
type getThen struct {
	ref.Store
	then func()
	done bool
}

func (g *getThen) Get(key string) ([]byte, error) {
	v, err := g.Store.Get(key)
	if !g.done {
		g.done = true
		g.then()
	}
	return v, err
}

func first(b []byte) []byte {
	if len(b) == 0 {
		return nil
	}
	return b[:1]
}

func bucket(n int) string {
	switch {
	case n <= 10:
		return "1-10"
	case n <= 40:
		return "11-40"
	default:
		return ">40"
	}
}
