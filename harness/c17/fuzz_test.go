package c17

import (
	"encoding/base64"
	"testing"
)

// FuzzDecode is the native (coverage-guided) fuzz target over every decoder entry point; the
// oracle is the same in-target oracle as TestPropDecode (no panic, bounded allocation).
func FuzzDecode(f *testing.F) {
	hostile := [][]byte{
		{}, {0}, {0xff, 0xff, 0xff, 0xff}, {0, 0, 0, 1, 0xff, 0xff}, []byte("PACK\x00\x00\x00\x01"),
		[]byte("PACK\x00\x00\x00\x01\x9f\xff\xff\xff\xff\xff\xff\xff\xff\x7f"),
		[]byte("table 0123456789abcdef\nauthorName \x00\x01a\nauthorEmail \x00\x00\ntime 1600000000 +0000\nmessage \xff\xffm\n"),
		[]byte("columns \x00\x00\x00\x01\x00\x01a\npk \x00\x00\x00\x00\nrows \xff\xff\xff\xff\n"),
		[]byte("0009want\n0000"), {0x7f, 0xff, 0xff, 0xff, 0, 0, 0, 1},
	}
	for k := range kinds {
		for _, h := range hostile {
			f.Add(uint8(k), h)
		}
	}
	f.Fuzz(func(t *testing.T, kind uint8, data []byte) {
		if len(data) > 1<<16 {
			return
		}
		c := Case{Kind: kinds[int(kind)%len(kinds)], B64: base64.StdEncoding.EncodeToString(data), Mut: "fuzz"}
		if _, err := run(c); err != nil {
			writeFuzzFailure(c, err)
			t.Fatalf("VERIF-FAIL sub=decode: %v", err)
		}
	})
}

func FuzzReceive(f *testing.F) {
	f.Add([]byte("PACK\x00\x00\x00\x01"))
	f.Add([]byte("PACK\x00\x00\x00\x01\xb2\x01\x00\x00"))
	f.Fuzz(func(t *testing.T, data []byte) {
		if len(data) > 1<<16 {
			return
		}
		c := RecvCase{Raw: base64.StdEncoding.EncodeToString(data)}
		if _, err := runRecv(c); err != nil {
			writeFuzzFailureRecv(c, err)
			t.Fatalf("VERIF-FAIL sub=receive: %v", err)
		}
	})
}
