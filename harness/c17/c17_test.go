// C17 — malformed or hostile bytes are rejected with an error, never a crash.
package c17

import (
	"bytes"
	"encoding/base64"
	"encoding/binary"
	"encoding/json"
	"fmt"
	"io"
	"os"
	"path/filepath"
	"runtime"
	"runtime/debug"
	"strings"
	"testing"

	"github.com/go-logr/logr"
	"github.com/klauspost/compress/s2"
	apiutils "github.com/wrgl/wrgl/pkg/api/utils"
	"github.com/wrgl/wrgl/pkg/encoding/packfile"
	"github.com/wrgl/wrgl/pkg/objects"
	"pgregory.net/rapid"

	"verifharness/internal/evid"
	"verifharness/internal/model"
	"verifharness/internal/stores"
	"verifharness/internal/streams"
	"verifharness/internal/tblcheck"
)

func TestMain(m *testing.M) { evid.Main("C17", m) }

type Case struct {
	Kind string `json:"kind"`
	B64  string `json:"b64"`
	Mut  string `json:"mut"`
}

var sub = evid.Register("decode", run)

var hostile32 = []uint32{0, 1, 0x7fff, 0xffff, 0x10000, 0x7fffffff, 0xffffffff, 0x01000000, 255, 256}

// mutate applies one structured mutation to a valid encoding.
func mutate(t *rapid.T, data []byte) ([]byte, string) {
	b := append([]byte{}, data...)
	if len(b) == 0 {
		return []byte{byte(rapid.IntRange(0, 255).Draw(t, "single"))}, "single-byte"
	}
	switch rapid.IntRange(0, 7).Draw(t, "mutation") {
	case 0:
		cut := rapid.IntRange(0, len(b)-1).Draw(t, "cut")
		return b[:cut], "truncate"
	case 1:
		for i, n := 0, rapid.IntRange(1, 4).Draw(t, "nflips"); i < n; i++ {
			p := rapid.IntRange(0, len(b)-1).Draw(t, "pos")
			b[p] ^= 1 << uint(rapid.IntRange(0, 7).Draw(t, "bit"))
		}
		return b, "bitflip"
	case 2:
		if len(b) >= 4 {
			p := rapid.IntRange(0, len(b)-4).Draw(t, "pos32")
			binary.BigEndian.PutUint32(b[p:], rapid.SampledFrom(hostile32).Draw(t, "v32"))
		}
		return b, "hostile-u32"
	case 3:
		if len(b) >= 2 {
			p := rapid.IntRange(0, len(b)-2).Draw(t, "pos16")
			binary.BigEndian.PutUint16(b[p:], uint16(rapid.SampledFrom(hostile32).Draw(t, "v16")))
		}
		return b, "hostile-u16"
	case 4:
		p := rapid.IntRange(0, len(b)-1).Draw(t, "pos8")
		b[p] = rapid.SampledFrom([]byte{0, 1, 0x7f, 0x80, 0xff, ' ', '\n'}).Draw(t, "v8")
		return b, "hostile-byte"
	case 5:
		p := rapid.IntRange(0, len(b)).Draw(t, "inspos")
		ins := bytes.Repeat([]byte{rapid.SampledFrom([]byte{0, 0xff, 'a'}).Draw(t, "insbyte")}, rapid.IntRange(1, 8).Draw(t, "inslen"))
		return append(append(append([]byte{}, b[:p]...), ins...), b[p:]...), "insert"
	case 6:
		p := rapid.IntRange(0, len(b)-1).Draw(t, "delpos")
		n := rapid.IntRange(1, 8).Draw(t, "dellen")
		if p+n > len(b) {
			n = len(b) - p
		}
		return append(append([]byte{}, b[:p]...), b[p+n:]...), "delete"
	default:
		// the very first count / length field blown up (most decoders start with one)
		if len(b) >= 4 {
			binary.BigEndian.PutUint32(b, rapid.SampledFrom(hostile32).Draw(t, "head32"))
		}
		return b, "hostile-head"
	}
}

// declareFewerFields rewrites the "fields" line of an encoded table profile so that it lists only
// the first k names.
func declareFewerFields(p []byte, k int) ([]byte, bool) {
	marker := []byte("\nfields ")
	i := bytes.Index(p, marker)
	if i < 0 {
		return nil, false
	}
	start := i + len(marker)
	if start+4 > len(p) {
		return nil, false
	}
	count := int(binary.BigEndian.Uint32(p[start:]))
	off := start + 4
	var names []string
	for j := 0; j < count; j++ {
		if off+2 > len(p) {
			return nil, false
		}
		l := int(binary.BigEndian.Uint16(p[off:]))
		off += 2
		if off+l > len(p) {
			return nil, false
		}
		names = append(names, string(p[off:off+l]))
		off += l
	}
	if k > len(names) {
		k = len(names)
	}
	out := append([]byte{}, p[:start]...)
	out = append(out, model.EncodeStrList(names[:k])...)
	out = append(out, p[off:]...)
	return out, true
}

var kinds = []string{"packfile", "pktline", "commit", "table", "block", "blockindex", "profile", "strlist", "strlistbytes", "validate-block", "validate-strlist", "get-table", "get-commit", "get-block", "get-blockindex", "get-tableindex", "get-profile"}

func baseKind(k string) string {
	switch k {
	case "validate-block", "get-block", "get-tableindex":
		return "block"
	case "validate-strlist":
		return "strlist"
	case "get-table":
		return "table"
	case "get-commit":
		return "commit"
	case "get-blockindex":
		return "blockindex"
	case "get-profile":
		return "profile"
	}
	return k
}

func genValid(t *rapid.T, kind string) []byte {
	switch baseKind(kind) {
	case "commit":
		return streams.CommitBytes(t)
	case "table":
		return streams.TableBytes(t)
	case "block":
		return model.EncodeBlock(streams.SmallRows(t))
	case "blockindex":
		return streams.BlockIndexBytes(streams.SmallRows(t))
	case "profile":
		return streams.ProfileBytes(t)
	case "strlist", "strlistbytes":
		var b []byte
		for _, r := range streams.SmallRows(t) {
			b = append(b, model.EncodeStrList(r)...)
		}
		return b
	}
	for {
		k, data, _ := streams.Gen(t)
		if k == kind {
			return data
		}
	}
}

func TestPropDecode(t *testing.T) {
	rapid.Check(t, func(t *rapid.T) {
		kind := rapid.SampledFrom(kinds).Draw(t, "kind")
		var data []byte
		if kind == "packfile" || kind == "pktline" {
			for i := 0; i < 50; i++ {
				k, d, _ := streams.Gen(t)
				if k == kind {
					data = d
					break
				}
			}
			if data == nil {
				kind = "commit"
				data = streams.CommitBytes(t)
			}
		} else {
			data = genValid(t, kind)
		}
		mut, name := mutate(t, data)
		if (kind == "profile" || kind == "get-profile") && rapid.IntRange(0, 5).Draw(t, "declare") == 0 {
			// a profile whose header declares only its first k field names (an older or newer
			// writer) while the columns still use the field numbers of the full list
			if m, ok := declareFewerFields(data, rapid.IntRange(0, 11).Draw(t, "k")); ok {
				mut, name = m, "profile-declares-fewer-fields"
			}
		} else if baseKind(kind) == "commit" && bytes.Contains(data, []byte("\ntime ")) && rapid.IntRange(0, 3).Draw(t, "timefield") == 0 {
			// the 16 bytes of the time field ("<10-digit seconds> <+hhmm>") replaced by text of the
			// same width whose separator, sign or digits sit elsewhere
			i := bytes.Index(data, []byte("\ntime ")) + 6
			if i+16 <= len(data) {
				txt := rapid.SampledFrom([]string{
					"12345678901234 +", "160000000000 +00", "1600000000+07000", "                ", "1600000000 +070 ",
					" 1600000000+0700", "1600000000  0700", "-600000000 -0700", "16000000000+0700", "1600000000 +07:0",
					"160000000 +07000", "\x001600000000 +070", "1600000000 \xff0700", "9999999999 +9999", "0000000000 -0000",
				}).Draw(t, "timetext")
				mut, name = append(append(append([]byte{}, data[:i]...), txt[:16]...), data[i+16:]...), "commit-time-field"
			}
		} else if kind == "pktline" && len(data) >= 4 && rapid.IntRange(0, 3).Draw(t, "lenprefix") == 0 {
			// the 4-character length prefix of the first line replaced by text a lenient number
			// parser might accept: signs, blanks, prefixes, upper case
			pre := rapid.SampledFrom([]string{"-001", "-004", "+005", " 005", "0x05", "00-1", "-fff", "FFFF", "ffff", "0005", "1e01", "-000"}).Draw(t, "prefix")
			mut, name = append([]byte(pre), data[4:]...), "pktline-length-prefix"
		} else if rapid.IntRange(0, 3).Draw(t, "twice") == 0 {
			var n2 string
			mut, n2 = mutate(t, mut)
			name += "+" + n2
		}
		sub.Check(t, Case{Kind: kind, B64: base64.StdEncoding.EncodeToString(mut), Mut: name})
	})
}

func TestReplay(t *testing.T) { evid.Replay(t) }

// guarded runs f and reports a panic as an error; it also measures allocation growth.
func guarded(inputLen int, what string, f func() error) (err error, rejected bool) {
	var before, after runtime.MemStats
	runtime.ReadMemStats(&before)
	func() {
		defer func() {
			if p := recover(); p != nil {
				err = fmt.Errorf("%s panics: %v\n%s", what, p, wrglFrames(debug.Stack()))
			}
		}()
		if e := f(); e != nil {
			rejected = true
		}
	}()
	runtime.ReadMemStats(&after)
	if err != nil {
		return err, false
	}
	grown := after.TotalAlloc - before.TotalAlloc
	limit := uint64(64*inputLen) + 1<<20
	if what == "Receive" {
		// the receiver legitimately decompresses, hashes, indexes and profiles what it accepts:
		// a fixed working set of a few MiB is not "out of proportion to the input"
		limit = uint64(64*inputLen) + 16<<20
	}
	if grown > limit {
		return fmt.Errorf("%s allocated %d bytes for an input of %d bytes (limit %d)", what, grown, inputLen, limit), rejected
	}
	return nil, rejected
}

func run(c Case) (o evid.Outcome, err error) {
	data, derr := base64.StdEncoding.DecodeString(c.B64)
	if derr != nil {
		return o, fmt.Errorf("HARNESS: %v", derr)
	}
	what := c.Kind
	db := stores.NewMem()
	key16 := bytes.Repeat([]byte{7}, 16)
	var f func() error
	switch c.Kind {
	case "validate-block":
		f = func() error { return objects.ValidateBlockBytes(data) }
	case "validate-strlist":
		f = func() error { _, err := objects.ValidateStrListBytes(data); return err }
	case "get-table":
		db.Set(append([]byte("tbl/"), key16...), data)
		f = func() error { _, err := objects.GetTable(db, key16); return err }
	case "get-commit":
		db.Set(append([]byte("com/"), key16...), data)
		f = func() error { _, err := objects.GetCommit(db, key16); return err }
	case "get-block":
		db.Set(append([]byte("blk/"), key16...), s2.EncodeBetter(nil, data))
		f = func() error { _, _, err := objects.GetBlock(db, nil, key16); return err }
	case "get-blockindex":
		db.Set(append([]byte("blkidx/"), key16...), s2.EncodeBetter(nil, data))
		f = func() error { _, _, err := objects.GetBlockIndex(db, nil, key16); return err }
	case "get-tableindex":
		db.Set(append([]byte("tblidx/"), key16...), data)
		f = func() error { _, err := objects.GetTableIndex(db, key16); return err }
	case "get-profile":
		db.Set(append([]byte("tblsum/"), key16...), data)
		f = func() error { _, err := objects.GetTableProfile(db, key16); return err }
	default:
		f = func() error { _, err := streams.Decode(c.Kind, bytes.NewReader(data)); return err }
	}
	verr, rejected := guarded(len(data), what, f)
	if verr != nil {
		return o, verr
	}
	if !rejected {
		if err := acceptedIsWellFormed(c.Kind, c.Mut, data); err != nil {
			return o, err
		}
	}
	o.NonTrivial = len(data) >= 8
	o.Class("kind=%s", c.Kind)
	o.Class("mut=%s", strings.Split(c.Mut, "+")[0])
	if rejected {
		o.Class("rejected")
	} else {
		o.Class("accepted")
	}
	return o, nil
}

// acceptedIsWellFormed: what a decoder accepted must be what the bytes say.
//   - string lists have exactly one encoding: a record Read accepts must re-encode to the bytes it
//     consumed, and bytes ReadBytes hands out must pass wrgl's own ValidateStrListBytes (its callers
//     index into them without further checks);
//   - a strict prefix of a valid commit / table / block encoding (mutation "truncate" alone) is
//     either rejected or is itself the complete encoding of what was decoded (e.g. a commit cut
//     exactly after one of its parent lines) - never "the same object minus the missing tail".
//
// Other mutations may hit fields the decoders read leniently (time zones etc.), so nothing is
// demanded of them here beyond what run() already checks.
func acceptedIsWellFormed(kind, mut string, data []byte) (err error) {
	defer func() {
		if p := recover(); p != nil {
			err = fmt.Errorf("%s accepted the input, and using what it returned panics: %v", kind, p)
		}
	}()
	switch kind {
	case "strlist":
		dec := objects.NewStrListDecoder(false)
		r := bytes.NewReader(data)
		off := 0
		for i := 0; i < 100; i++ {
			n, sl, err := dec.Read(r)
			if err != nil {
				return nil
			}
			want := model.EncodeStrList(sl)
			if off+int(n) > len(data) || !bytes.Equal(want, data[off:off+int(n)]) {
				return fmt.Errorf("StrListDecoder.Read accepted record %d as %q (%d bytes consumed), which is not what the %d input bytes at offset %d encode", i, clipStrs(sl), n, len(data)-off, off)
			}
			off += int(n)
		}
	case "strlistbytes":
		dec := objects.NewStrListDecoder(false)
		r := bytes.NewReader(data)
		for i := 0; i < 100; i++ {
			n, b, err := dec.ReadBytes(r)
			if err != nil {
				return nil
			}
			if m, verr := objects.ValidateStrListBytes(b); verr != nil || m != len(b) || n != len(b) {
				return fmt.Errorf("StrListDecoder.ReadBytes accepted record %d (%d bytes) that ValidateStrListBytes refuses (%v): a truncated record is handed to callers that index into it", i, n, verr)
			}
			// decoding what was handed out must not panic (recovered above)
			objects.NewStrListDecoder(false).Decode(b)
		}
	}
	if mut != "truncate" {
		return nil
	}
	switch kind {
	case "commit", "get-commit":
		n, c, err := objects.ReadCommitFrom(bytes.NewReader(data))
		if err != nil {
			return nil
		}
		var buf bytes.Buffer
		c.WriteTo(&buf)
		if int(n) != len(data) || !bytes.Equal(buf.Bytes(), data) {
			return fmt.Errorf("a valid commit cut to %d bytes was accepted, but it is not the encoding of the commit that was decoded (%d parents, re-encodes to %d bytes): part of it was silently dropped", len(data), len(c.Parents), buf.Len())
		}
	case "table", "get-table":
		n, tb, err := objects.ReadTableFrom(bytes.NewReader(data))
		if err != nil {
			return nil
		}
		var buf bytes.Buffer
		tb.WriteTo(&buf)
		if int(n) != len(data) || !bytes.Equal(buf.Bytes(), data) {
			return fmt.Errorf("a valid table object cut to %d bytes was accepted, but it is not the encoding of the table that was decoded (re-encodes to %d bytes)", len(data), buf.Len())
		}
	case "block":
		n, blk, err := objects.ReadBlockFrom(bytes.NewReader(data))
		if err != nil {
			return nil
		}
		want := model.EncodeBlock(blk)
		if int(n) != len(data) || !bytes.Equal(want, data) {
			return fmt.Errorf("a valid block cut to %d bytes was accepted as %d rows, which re-encode to %d bytes", len(data), len(blk), len(want))
		}
	}
	return nil
}

func clipStrs(sl []string) []string {
	out := make([]string, 0, len(sl))
	for _, s := range sl {
		if len(s) > 20 {
			s = s[:20] + "..."
		}
		out = append(out, s)
	}
	return out
}

// ---- ObjectReceiver.Receive over packfiles of mutated objects ---------------------------------------

type RecvObj struct {
	Type int    `json:"type"`
	B64  string `json:"b64"` // raw object bytes (blocks are s2-compressed by the harness after mutation)
}

type RecvCase struct {
	Objs []RecvObj `json:"objs"`
	Raw  string    `json:"raw,omitempty"` // alternatively: a mutated packfile byte stream
}

var subRecv = evid.Register("receive", runRecv)

func TestPropReceive(t *testing.T) {
	rapid.Check(t, func(t *rapid.T) {
		rows := streams.SmallRows(t)
		blk := model.EncodeBlock(rows)
		idx := streams.BlockIndexBytes(rows)
		tb := objects.NewTable([]string{"id", "v", "w"}, []uint32{0})
		tb.RowsCount = uint32(len(rows))
		tb.Blocks = [][]byte{model.Sum(blk)}
		tb.BlockIndices = [][]byte{model.Sum(idx)}
		var tbuf bytes.Buffer
		tb.WriteTo(&tbuf)
		com := &objects.Commit{Table: model.Sum(tbuf.Bytes()), AuthorName: "a", AuthorEmail: "b", Message: "m"}
		var cbuf bytes.Buffer
		com.WriteTo(&cbuf)
		objs := []RecvObj{{packfile.ObjectBlock, ""}, {packfile.ObjectTable, ""}, {packfile.ObjectCommit, ""}}
		raws := [][]byte{blk, tbuf.Bytes(), cbuf.Bytes()}
		victim := rapid.IntRange(0, 3).Draw(t, "victim")
		if victim == 3 {
			// a well-formed table object whose fields disagree with the block it names: key
			// column index at / past the column count, row count off by one or by a block,
			// more / fewer block sums than the row count implies, no columns
			cols := []string{"id", "v", "w"}
			pk := []uint32{0}
			nrows := uint32(len(rows))
			blocks, idxs := [][]byte{model.Sum(blk)}, [][]byte{model.Sum(idx)}
			switch rapid.IntRange(0, 5).Draw(t, "tablefield") {
			case 0:
				pk = []uint32{rapid.SampledFrom([]uint32{3, 2, 4, 1, 1000, 0xffffffff}).Draw(t, "pkidx")}
			case 1:
				pk = []uint32{0, rapid.SampledFrom([]uint32{0, 3, 1}).Draw(t, "pk2")}
			case 2:
				nrows = rapid.SampledFrom([]uint32{nrows + 1, nrows - 1, 0, 255, 256, 0xffffffff}).Draw(t, "nrows")
			case 3:
				blocks = append(blocks, model.Sum(blk))
				idxs = append(idxs, model.Sum(idx))
				nrows = rapid.SampledFrom([]uint32{nrows, 256, 2 * nrows}).Draw(t, "nrows2")
			case 4:
				cols = cols[:rapid.IntRange(0, 2).Draw(t, "ncols")]
			default:
				cols = []string{"id", "id", "w"}
			}
			raws[1] = model.EncodeTable(cols, pk, nrows, blocks, idxs)
			com.Table = model.Sum(raws[1])
			var cb bytes.Buffer
			com.WriteTo(&cb)
			raws[2] = cb.Bytes()
		} else {
			raws[victim], _ = mutate(t, raws[victim])
		}
		if rapid.IntRange(0, 4).Draw(t, "second") == 0 {
			v2 := rapid.IntRange(0, 2).Draw(t, "victim2")
			raws[v2], _ = mutate(t, raws[v2])
		}
		for i := range objs {
			objs[i].B64 = base64.StdEncoding.EncodeToString(raws[i])
		}
		c := RecvCase{Objs: objs}
		if rapid.IntRange(0, 9).Draw(t, "multiblock") == 0 {
			// a table of two blocks whose sizes add up to the declared row count, with correct
			// block indices, but with a block shape wrgl never produces: a short block that is
			// not the last one, an empty block, or an overfull one. Readers locate row N at
			// block N/255, so such a table must not be stored.
			shape := rapid.SampledFrom([][2]int{{45, 255}, {254, 1}, {1, 255}, {256, 44}, {255, 256}, {255, 45}}).Draw(t, "shape")
			mk := func(from, n int) [][]string {
				out := [][]string{}
				for i := 0; i < n; i++ {
					out = append(out, []string{fmt.Sprintf("k%05d", from+i), "v", "w"})
				}
				return out
			}
			rA, rB := mk(0, shape[0]), mk(shape[0], shape[1])
			bA, bB := model.EncodeBlock(rA), model.EncodeBlock(rB)
			iA, iB := streams.BlockIndexBytes(rA), streams.BlockIndexBytes(rB)
			tbytes := model.EncodeTable([]string{"id", "v", "w"}, []uint32{0}, uint32(shape[0]+shape[1]), [][]byte{model.Sum(bA), model.Sum(bB)}, [][]byte{model.Sum(iA), model.Sum(iB)})
			cm := &objects.Commit{Table: model.Sum(tbytes), AuthorName: "a", AuthorEmail: "b", Message: "m"}
			var cb bytes.Buffer
			cm.WriteTo(&cb)
			c = RecvCase{Objs: []RecvObj{
				{packfile.ObjectBlock, base64.StdEncoding.EncodeToString(bA)},
				{packfile.ObjectBlock, base64.StdEncoding.EncodeToString(bB)},
				{packfile.ObjectTable, base64.StdEncoding.EncodeToString(tbytes)},
				{packfile.ObjectCommit, base64.StdEncoding.EncodeToString(cb.Bytes())},
			}}
		}
		if rapid.IntRange(0, 3).Draw(t, "rawpack") == 0 {
			var pf bytes.Buffer
			w, _ := packfile.NewPackfileWriter(&pf)
			w.WriteObject(packfile.ObjectBlock, s2.EncodeBetter(nil, blk))
			w.WriteObject(packfile.ObjectTable, tbuf.Bytes())
			w.WriteObject(packfile.ObjectCommit, cbuf.Bytes())
			m, _ := mutate(t, pf.Bytes())
			c = RecvCase{Raw: base64.StdEncoding.EncodeToString(m)}
		}
		subRecv.Check(t, c)
	})
}

func runRecv(c RecvCase) (o evid.Outcome, err error) {
	var pack []byte
	if c.Raw != "" {
		pack, _ = base64.StdEncoding.DecodeString(c.Raw)
	} else {
		var pf bytes.Buffer
		w, _ := packfile.NewPackfileWriter(&pf)
		for _, ob := range c.Objs {
			b, _ := base64.StdEncoding.DecodeString(ob.B64)
			if ob.Type == packfile.ObjectBlock {
				b = s2.EncodeBetter(nil, b)
			}
			w.WriteObject(ob.Type, b)
		}
		pack = pf.Bytes()
	}
	// Known finding C17-s2-decoded-length: the receiver hands a compressed block to s2.Decode, which
	// allocates the decoded length declared in the block's own header before looking at the data.
	// While that finding is listed as known, packfiles holding such a block are counted and
	// skipped so that the search goes on behind it.
	if inflated(pack) && evid.Known("C17-s2-decoded-length") {
		evid.Excluded("C17-s2-decoded-length")
		o.Class("excluded-known-s2-decoded-length")
		return o, nil
	}
	db := stores.NewMem()
	var rerr error
	verr, rejected := guarded(len(pack), "Receive", func() error {
		pr, err := packfile.NewPackfileReader(io.NopCloser(bytes.NewReader(pack)))
		if err != nil {
			rerr = err
			return err
		}
		recv := apiutils.NewObjectReceiver(db, nil, logr.Discard())
		_, rerr = recv.Receive(pr, nil)
		return rerr
	})
	if verr != nil {
		return o, verr
	}
	// whatever was kept must be consistent: nothing from a rejected object is left referenced
	for _, k := range db.Keys() {
		switch {
		case strings.HasPrefix(k, "tbl/"):
			if _, err := tblcheck.Validate(db, []byte(k[4:])); err != nil {
				return o, fmt.Errorf("after Receive (%v) table %x is stored but unusable: %v", rerr, k[4:], err)
			}
		case strings.HasPrefix(k, "com/"):
			com, err := objects.GetCommit(db, []byte(k[4:]))
			if err != nil {
				return o, fmt.Errorf("after Receive (%v) commit %x is stored but unreadable: %v", rerr, k[4:], err)
			}
			for _, p := range com.Parents {
				if !objects.CommitExist(db, p) {
					return o, fmt.Errorf("after Receive a commit is stored whose parent is missing")
				}
			}
		case strings.HasPrefix(k, "tblidx/"), strings.HasPrefix(k, "tblsum/"):
			if !objects.TableExist(db, []byte(k[strings.IndexByte(k, '/')+1:])) {
				return o, fmt.Errorf("after Receive (%v) %s is left behind for a table that was not stored", rerr, k[:strings.IndexByte(k, '/')+1])
			}
		}
	}
	o.NonTrivial = true
	if rejected {
		o.Class("rejected")
	} else {
		o.Class("accepted")
	}
	if c.Raw != "" {
		o.Class("mutated-packfile-bytes")
	} else {
		o.Class("mutated-object")
	}
	return o, nil
}

func wrglFrames(b []byte) string {
	var keep []string
	for _, l := range strings.Split(string(b), "\n") {
		if strings.Contains(l, "github.com/wrgl/wrgl") {
			keep = append(keep, strings.TrimSpace(l))
		}
		if len(keep) >= 8 {
			break
		}
	}
	return strings.Join(keep, "\n")
}

// inflated reports whether the packfile (parsed with the harness's own reader) holds a block object
// whose s2 header declares a decoded length out of proportion to the packfile size.
func inflated(pack []byte) bool {
	if len(pack) < 8 || string(pack[:4]) != "PACK" {
		return false
	}
	off := 8
	for off < len(pack) {
		ty := int(pack[off]>>4) & 7
		l := uint64(pack[off] & 15)
		shift := uint(4)
		more := pack[off]&128 != 0
		off++
		for more && off < len(pack) && shift < 64 {
			l |= uint64(pack[off]&127) << shift
			more = pack[off]&128 != 0
			shift += 7
			off++
		}
		if l > uint64(len(pack)-off) {
			l = uint64(len(pack) - off)
		}
		body := pack[off : off+int(l)]
		off += int(l)
		if ty == packfile.ObjectBlock {
			if n, err := s2.DecodedLen(body); err == nil && uint64(n) > uint64(64*len(pack))+(8<<20) {
				return true
			}
		}
	}
	return false
}

// fuzz failures are written as ordinary replay files so that the driver treats them like rapid's
func writeFuzzFailure(c Case, err error) {
	b, _ := json.Marshal(map[string]interface{}{"property": "C17", "sub": "decode", "error": err.Error(), "case": c})
	os.WriteFile(filepath.Join(evid.OutDir(), "fail-decode.json"), b, 0o644)
}

func writeFuzzFailureRecv(c RecvCase, err error) {
	b, _ := json.Marshal(map[string]interface{}{"property": "C17", "sub": "receive", "error": err.Error(), "case": c})
	os.WriteFile(filepath.Join(evid.OutDir(), "fail-receive.json"), b, 0o644)
}
