// Package evid is the small runtime every property package shares: it journals the case that is
// about to run (so a process death can be attributed), executes the oracle, counts evaluations /
// distinct non-trivial cases / class labels, keeps samples, writes the replay file of a failing
// case (rapid re-executes the shrunk case last, so the surviving file is the minimal one) and
// replays saved cases without rapid.
package evid

import (
	"crypto/sha1"
	"encoding/binary"
	"encoding/json"
	"fmt"
	"os"
	"path/filepath"
	"runtime"
	"runtime/debug"
	"sort"
	"strconv"
	"strings"
	"sync"
	"sync/atomic"
	"testing"
	"time"
)

// Outcome is what an oracle reports about a case besides pass/fail.
type Outcome struct {
	NonTrivial bool
	Classes    []string
}

func (o *Outcome) Class(format string, a ...interface{}) {
	o.Classes = append(o.Classes, fmt.Sprintf(format, a...))
}

type failer interface {
	Fatalf(format string, args ...interface{})
	Helper()
}

type replayFile struct {
	Property string          `json:"property"`
	Sub      string          `json:"sub"`
	Error    string          `json:"error,omitempty"`
	Known    string          `json:"known,omitempty"`
	Case     json.RawMessage `json:"case"`
}

type subStats struct {
	Evaluations int `json:"evaluations"`
	NonTrivial  int `json:"nontrivial"`
	Failures    int `json:"failures"`
}

type recorder struct {
	mu        sync.Mutex
	prop      string
	out       string
	known     map[string]bool
	evals     int
	hashes    map[uint64]struct{}
	classes   map[string]int
	subs      map[string]*subStats
	samples   []json.RawMessage
	first     json.RawMessage
	excluded  map[string]int
	notes     map[string]int
	replayers map[string]func(json.RawMessage) error
	watchdog  time.Duration
	start     time.Time
}

var r = &recorder{
	hashes:    map[uint64]struct{}{},
	classes:   map[string]int{},
	subs:      map[string]*subStats{},
	excluded:  map[string]int{},
	notes:     map[string]int{},
	replayers: map[string]func(json.RawMessage) error{},
	known:     map[string]bool{},
	watchdog:  120 * time.Second,
	start:     time.Now(),
}

// Init must be called from TestMain before m.Run.
func Init(prop string) {
	r.prop = prop
	r.out = os.Getenv("VERIF_OUT")
	if r.out == "" {
		d, err := os.MkdirTemp("", "verif-out-*")
		if err != nil {
			panic(err)
		}
		r.out = d
	}
	os.MkdirAll(r.out, 0o755)
	// private temp dir per process: wrgl's testutils.TempFile honours RUNNER_TEMP, os.CreateTemp TMPDIR
	tmp := filepath.Join(r.out, "tmp")
	os.MkdirAll(tmp, 0o755)
	os.Setenv("TMPDIR", tmp)
	os.Setenv("RUNNER_TEMP", tmp)
	for _, k := range strings.Split(os.Getenv("VERIF_KNOWN"), ",") {
		if k != "" {
			r.known[k] = true
		}
	}
	if s := os.Getenv("VERIF_WATCHDOG_S"); s != "" {
		if n, err := strconv.Atoi(s); err == nil && n > 0 {
			r.watchdog = time.Duration(n) * time.Second
		}
	}
}

// Main is the TestMain body shared by all property packages.
func Main(prop string, m *testing.M) {
	Init(prop)
	code := m.Run()
	Flush()
	os.Exit(code)
}

// Known reports whether a finding id is listed as known (not fixed) in known_findings.json; the
// generators use it to steer cases out of the finding's class (and must call Excluded for each).
func Known(id string) bool { return r.known[id] }

// Excluded counts a case that was remapped away from a known finding's class.
func Excluded(id string) {
	r.mu.Lock()
	r.excluded[id]++
	r.mu.Unlock()
}

// Note counts a free-form observation (reported in evidence, never a verdict).
func Note(format string, a ...interface{}) {
	r.mu.Lock()
	r.notes[fmt.Sprintf(format, a...)]++
	r.mu.Unlock()
}

// Count adds n to a named counter reported with the observations.
func Count(name string, n int) {
	r.mu.Lock()
	r.notes[name] += n
	r.mu.Unlock()
}

// Tier returns "quick" or "thorough".
func Tier() string {
	if os.Getenv("VERIF_TIER") == "thorough" {
		return "thorough"
	}
	return "quick"
}

func Thorough() bool { return Tier() == "thorough" }

// Scale picks a size bound by tier.
func Scale(quick, thorough int) int {
	if Thorough() {
		return thorough
	}
	return quick
}

// TempDir is the private temp directory of this process (TMPDIR and RUNNER_TEMP point at it).
func TempDir() string { return filepath.Join(r.out, "tmp") }

// OutDir is the private scratch directory of this run.
func OutDir() string { return r.out }

// Sub is one oracle over one case type.
type Sub[C any] struct {
	name string
	run  func(C) (Outcome, error)
}

// Register declares an oracle; the name selects it again at replay time.
func Register[C any](name string, run func(C) (Outcome, error)) *Sub[C] {
	s := &Sub[C]{name: name, run: run}
	r.replayers[name] = func(raw json.RawMessage) error {
		var c C
		if err := json.Unmarshal(raw, &c); err != nil {
			return fmt.Errorf("HARNESS: cannot decode case: %v", err)
		}
		_, err := s.exec(c)
		return err
	}
	return s
}

var casesDone, maxDoneMS int64

func (s *Sub[C]) exec(c C) (o Outcome, err error) {
	done := make(chan struct{})
	go func() {
		select {
		case <-done:
		case <-time.After(r.watchdog):
			buf := make([]byte, 1<<22)
			n := runtime.Stack(buf, true)
			os.WriteFile(filepath.Join(r.out, "hang-"+s.name+".txt"), buf[:n], 0o644)
			// done / maxdone_ms: how many cases this process completed before and how long the
			// slowest of them took - the driver's yardstick for telling a livelock from a slow case
			fmt.Fprintf(os.Stderr, "\nVERIF-HANG sub=%s after %s done=%d maxdone_ms=%d\n", s.name, r.watchdog, atomic.LoadInt64(&casesDone), atomic.LoadInt64(&maxDoneMS))
			Flush()
			os.Exit(3)
		}
	}()
	defer close(done)
	t0 := time.Now()
	defer func() {
		ms := time.Since(t0).Milliseconds()
		atomic.AddInt64(&casesDone, 1)
		for {
			old := atomic.LoadInt64(&maxDoneMS)
			if ms <= old || atomic.CompareAndSwapInt64(&maxDoneMS, old, ms) {
				break
			}
		}
	}()
	defer func() {
		if p := recover(); p != nil {
			err = fmt.Errorf("panic: %v\n%s", p, trimStack(debug.Stack()))
		}
	}()
	return s.run(c)
}

func trimStack(b []byte) string {
	lines := strings.Split(string(b), "\n")
	var keep []string
	for _, l := range lines {
		if strings.Contains(l, "github.com/wrgl/wrgl") || strings.Contains(l, "verifharness") {
			keep = append(keep, strings.TrimSpace(l))
		}
		if len(keep) >= 16 {
			break
		}
	}
	return strings.Join(keep, "\n")
}

// Check journals, executes and records one case, and fails t on a violation.
func (s *Sub[C]) Check(t failer, c C) {
	t.Helper()
	raw, merr := json.Marshal(c)
	if merr != nil {
		t.Fatalf("HARNESS: cannot encode case: %v", merr)
	}
	writeCase(filepath.Join(r.out, "journal.json"), s.name, raw, "")
	o, err := s.exec(c)
	r.mu.Lock()
	r.evals++
	st := r.subs[s.name]
	if st == nil {
		st = &subStats{}
		r.subs[s.name] = st
	}
	st.Evaluations++
	for _, cl := range o.Classes {
		r.classes[s.name+":"+cl]++
	}
	if r.first == nil {
		r.first = sample(s.name, raw, o)
	}
	if o.NonTrivial {
		st.NonTrivial++
		h := sha1.Sum(append([]byte(s.name+"\x00"), raw...))
		k := binary.BigEndian.Uint64(h[:8])
		if _, ok := r.hashes[k]; !ok {
			r.hashes[k] = struct{}{}
			n := len(r.hashes)
			if len(r.samples) < 6 && (n == 1 || n == 7 || n == 50 || n == 300 || n == 2000 || n == 10000) {
				r.samples = append(r.samples, sample(s.name, raw, o))
			}
		}
	}
	if err != nil {
		st.Failures++
	}
	r.mu.Unlock()
	if err != nil {
		writeCase(filepath.Join(r.out, "fail-"+s.name+".json"), s.name, raw, err.Error())
		t.Fatalf("VERIF-FAIL sub=%s: %v", s.name, err)
	}
}

func sample(sub string, raw json.RawMessage, o Outcome) json.RawMessage {
	const max = 1500
	var v interface{}
	if len(raw) > max {
		v = string(raw[:max]) + fmt.Sprintf("...(%d bytes)", len(raw))
	} else {
		v = raw
	}
	b, _ := json.Marshal(map[string]interface{}{"sub": sub, "classes": o.Classes, "case": v})
	return b
}

func writeCase(path, sub string, raw json.RawMessage, errText string) {
	b, _ := json.Marshal(replayFile{Property: r.prop, Sub: sub, Error: errText, Case: raw})
	os.WriteFile(path, b, 0o644)
}

// Flush writes stats.json and the distinct-case hash list.
func Flush() {
	r.mu.Lock()
	defer r.mu.Unlock()
	if r.out == "" {
		return
	}
	type stats struct {
		Property    string               `json:"property"`
		Evaluations int                  `json:"evaluations"`
		Distinct    int                  `json:"distinct_nontrivial"`
		Classes     map[string]int       `json:"classes"`
		Subs        map[string]*subStats `json:"subs"`
		Samples     []json.RawMessage    `json:"samples"`
		Excluded    map[string]int       `json:"excluded_known"`
		Notes       map[string]int       `json:"notes"`
		WallS       float64              `json:"wall_s"`
	}
	if len(r.samples) == 0 && r.first != nil {
		r.samples = append(r.samples, r.first)
	}
	b, _ := json.Marshal(stats{r.prop, r.evals, len(r.hashes), r.classes, r.subs, r.samples, r.excluded, r.notes, time.Since(r.start).Seconds()})
	os.WriteFile(filepath.Join(r.out, "stats.json"), b, 0o644)
	keys := make([]uint64, 0, len(r.hashes))
	for k := range r.hashes {
		keys = append(keys, k)
	}
	sort.Slice(keys, func(i, j int) bool { return keys[i] < keys[j] })
	hb := make([]byte, 8*len(keys))
	for i, k := range keys {
		binary.BigEndian.PutUint64(hb[8*i:], k)
	}
	os.WriteFile(filepath.Join(r.out, "hashes.bin"), hb, 0o644)
}

// Replay runs the saved cases named by VERIF_REPLAY_FILES (':'-separated) through their oracles
// without rapid. Each case is executed VERIF_REPLAY_REPEAT times (default 1); any failing
// execution fails the replay. One "REPLAY <file> ok|FAIL" line per file goes to stdout.
func Replay(t *testing.T) {
	files := os.Getenv("VERIF_REPLAY_FILES")
	if files == "" {
		t.Skip("no VERIF_REPLAY_FILES")
	}
	repeat := 1
	if s := os.Getenv("VERIF_REPLAY_REPEAT"); s != "" {
		if n, err := strconv.Atoi(s); err == nil && n > 0 {
			repeat = n
		}
	}
	failed := false
	for _, f := range strings.Split(files, ":") {
		if f == "" {
			continue
		}
		b, err := os.ReadFile(f)
		if err != nil {
			t.Fatalf("HARNESS: %v", err)
		}
		var rf replayFile
		if err := json.Unmarshal(b, &rf); err != nil {
			t.Fatalf("HARNESS: %s: %v", f, err)
		}
		run, ok := r.replayers[rf.Sub]
		if !ok {
			t.Fatalf("HARNESS: %s: unknown sub %q", f, rf.Sub)
		}
		writeCase(filepath.Join(r.out, "journal.json"), rf.Sub, rf.Case, "")
		var ferr error
		for i := 0; i < repeat && ferr == nil; i++ {
			ferr = run(rf.Case)
		}
		if ferr != nil {
			failed = true
			fmt.Printf("REPLAY %s FAIL %s\n", f, strings.ReplaceAll(firstLine(ferr.Error()), "\n", " "))
			t.Logf("replay %s: %v", f, ferr)
		} else {
			fmt.Printf("REPLAY %s ok\n", f)
		}
	}
	if failed {
		t.Fail()
	}
}

func firstLine(s string) string {
	if i := strings.IndexByte(s, '\n'); i >= 0 {
		return s[:i]
	}
	return s
}

// Errorf is fmt.Errorf, here so oracles need only this package.
func Errorf(format string, a ...interface{}) error { return fmt.Errorf(format, a...) }
