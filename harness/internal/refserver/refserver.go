// Package refserver is a reference HTTP server for wrgl's sync protocol (GET /refs/, POST
// /upload-pack/, POST /receive-pack/). It contains no transfer logic of its own: negotiation,
// packing and receiving are wrgl's exported ClosedSetsFinder, ObjectSender and ObjectReceiver. It
// records what it sent and received so that the checks can count transferred objects.
package refserver

import (
	"compress/gzip"
	"crypto/tls"
	"crypto/x509"
	"encoding/json"
	"fmt"
	"io"
	"net/http"
	"net/http/httptest"
	"strings"
	"sync"

	"github.com/go-logr/logr"
	"github.com/wrgl/wrgl/pkg/api/payload"
	apiutils "github.com/wrgl/wrgl/pkg/api/utils"
	"github.com/wrgl/wrgl/pkg/encoding/packfile"
	"github.com/wrgl/wrgl/pkg/objects"
	"github.com/wrgl/wrgl/pkg/ref"
)

const (
	ctJSON     = "application/json"
	ctPackfile = "application/x-wrgl-packfile"
)

// Stats of the traffic seen by the server.
type Stats struct {
	UploadPackRequests  int
	NegotiationRounds   int // upload-pack requests carrying haves or wants
	PackfilesSent       int
	ObjectsSent         int
	ReceivePackRequests int
	PackfilesReceived   int
	ObjectsReceived     int
	UpdateRequests      []map[string]*payload.Update // ref updates asked for by pushes
	Errors              []string
	Aborts              int // packfile responses cut by a stream reset (fault injection)
}

// Server is one remote repository.
type Server struct {
	DB  objects.Store
	RS  ref.Store
	TS  *httptest.Server
	URL string

	// fault injection: the AbortPackfile-th packfile response (1-based, counted over the server's
	// life) is cut after AbortAfter bytes by aborting the handler, which an HTTP/2 server turns into
	// RST_STREAM(INTERNAL_ERROR); the upload-pack session dies with it.
	AbortPackfile int
	AbortAfter    int
	packSeq       int

	MaxPackfileSize  uint64 // for upload-pack
	TableNegotiation bool   // send TableHaves before the first packfile
	TablesPerRound   int

	mu    sync.Mutex
	Stats Stats

	// upload-pack session
	finder     *apiutils.ClosedSetsFinder
	sender     *apiutils.ObjectSender
	candTables [][]byte
	tables     map[string]struct{}
	inTableNeg bool

	// receive-pack session
	updates  map[string]*payload.Update
	receiver *apiutils.ObjectReceiver

	sessionSeq int
	upSession  string
	rpSession  string
}

// New starts a server over the given stores.
func New(db objects.Store, rs ref.Store) *Server {
	s := &Server{DB: db, RS: rs, TablesPerRound: 2}
	mux := http.NewServeMux()
	mux.HandleFunc("/refs/", s.handleRefs)
	mux.HandleFunc("/upload-pack/", s.handleUploadPack)
	mux.HandleFunc("/receive-pack/", s.handleReceivePack)
	s.TS = httptest.NewServer(mux)
	s.URL = s.TS.URL
	return s
}

// NewH2 starts the same server speaking HTTP/2 over TLS (httptest's fixed localhost certificate;
// see TrustTestCert).
func NewH2(db objects.Store, rs ref.Store) *Server {
	s := New(db, rs)
	s.TS.Close()
	mux := s.TS.Config.Handler
	s.TS = httptest.NewUnstartedServer(mux)
	s.TS.EnableHTTP2 = true
	s.TS.StartTLS()
	s.URL = s.TS.URL
	return s
}

// TrustTestCert makes http.DefaultTransport (which wrgl's API client uses) trust httptest's
// certificate. Call once, before the first request of the process.
func TrustTestCert() {
	ts := httptest.NewUnstartedServer(http.NotFoundHandler())
	ts.EnableHTTP2 = true
	ts.StartTLS()
	pool := x509.NewCertPool()
	pool.AddCert(ts.Certificate())
	tr := http.DefaultTransport.(*http.Transport)
	tr.TLSClientConfig = &tls.Config{RootCAs: pool, NextProtos: []string{"h2", "http/1.1"}}
	tr.ForceAttemptHTTP2 = true
	ts.Close()
}

// cutWriter aborts the handler after n bytes of body.
type cutWriter struct {
	http.ResponseWriter
	left int
}

func (c *cutWriter) Write(b []byte) (int, error) {
	if len(b) >= c.left {
		c.ResponseWriter.Write(b[:c.left])
		if f, ok := c.ResponseWriter.(http.Flusher); ok {
			f.Flush()
		}
		panic(http.ErrAbortHandler)
	}
	c.left -= len(b)
	return c.ResponseWriter.Write(b)
}

func (s *Server) Close() { s.TS.Close() }

// ResetStats clears the counters.
func (s *Server) ResetStats() {
	s.mu.Lock()
	s.Stats = Stats{}
	s.mu.Unlock()
}

func (s *Server) fail(w http.ResponseWriter, code int, format string, a ...interface{}) {
	msg := fmt.Sprintf(format, a...)
	s.Stats.Errors = append(s.Stats.Errors, msg)
	w.Header().Set("Content-Type", ctJSON)
	w.WriteHeader(code)
	json.NewEncoder(w).Encode(map[string]string{"message": msg})
}

func (s *Server) handleRefs(w http.ResponseWriter, r *http.Request) {
	s.mu.Lock()
	defer s.mu.Unlock()
	q := r.URL.Query()
	m, err := s.RS.Filter(q["prefix"], q["notprefix"])
	if err != nil {
		s.fail(w, 500, "filter: %v", err)
		return
	}
	resp := &payload.GetRefsResponse{Refs: map[string]*payload.Hex{}}
	for k, v := range m {
		h := &payload.Hex{}
		copy((*h)[:], v)
		resp.Refs[k] = h
	}
	w.Header().Set("Content-Type", ctJSON)
	json.NewEncoder(w).Encode(resp)
}

func (s *Server) sendPackfile(w http.ResponseWriter) {
	w.Header().Set("Content-Type", ctPackfile)
	s.packSeq++
	if s.AbortPackfile > 0 && s.packSeq == s.AbortPackfile {
		s.Stats.Aborts++
		sender := s.sender
		s.finder, s.sender, s.candTables, s.tables, s.inTableNeg = nil, nil, nil, nil, false
		s.upSession = ""
		sender.WriteObjects(&cutWriter{w, s.AbortAfter}, nil)
		// the packfile was shorter than AbortAfter: cut it at its end
		if f, ok := w.(http.Flusher); ok {
			f.Flush()
		}
		panic(http.ErrAbortHandler)
	}
	done, info, err := s.sender.WriteObjects(w, nil)
	if err != nil {
		s.Stats.Errors = append(s.Stats.Errors, "WriteObjects: "+err.Error())
		return
	}
	s.Stats.PackfilesSent++
	s.Stats.ObjectsSent += len(info.Objects)
	if done {
		s.finder, s.sender, s.candTables, s.tables, s.inTableNeg = nil, nil, nil, nil, false
	}
}

func (s *Server) startSending(w http.ResponseWriter) {
	commits, err := s.finder.CommitsToSend()
	if err != nil {
		s.fail(w, 500, "CommitsToSend: %v", err)
		return
	}
	s.sender, err = apiutils.NewObjectSender(s.DB, commits, s.tables, s.finder.CommonCommmits(), s.MaxPackfileSize)
	if err != nil {
		s.fail(w, 500, "NewObjectSender: %v", err)
		return
	}
	s.sendPackfile(w)
}

func (s *Server) nextTableRound(w http.ResponseWriter) {
	if len(s.candTables) == 0 {
		s.inTableNeg = false
		s.startSending(w)
		return
	}
	n := s.TablesPerRound
	if n > len(s.candTables) {
		n = len(s.candTables)
	}
	batch := s.candTables[:n]
	s.candTables = s.candTables[n:]
	s.inTableNeg = true
	w.Header().Set("Content-Type", ctJSON)
	json.NewEncoder(w).Encode(&payload.UploadPackResponse{TableHaves: payload.BytesSliceToHexSlice(batch)})
}

func (s *Server) handleUploadPack(w http.ResponseWriter, r *http.Request) {
	s.mu.Lock()
	defer s.mu.Unlock()
	s.Stats.UploadPackRequests++
	req := &payload.UploadPackRequest{}
	b, _ := io.ReadAll(r.Body)
	if len(b) > 0 {
		if err := json.Unmarshal(b, req); err != nil {
			s.fail(w, 400, "bad request: %v", err)
			return
		}
	}
	// sessions are identified by a cookie: a request without it (a new client process) starts a new
	// session and abandons whatever an interrupted client left behind
	if ck, err := r.Cookie("upload-pack-session-id"); err != nil || ck.Value != s.upSession {
		s.finder, s.sender, s.candTables, s.tables, s.inTableNeg = nil, nil, nil, nil, false
		s.sessionSeq++
		s.upSession = fmt.Sprintf("up-%d", s.sessionSeq)
	}
	http.SetCookie(w, &http.Cookie{Name: "upload-pack-session-id", Value: s.upSession, Path: "/"})
	switch {
	case s.sender != nil:
		// "empty request = next packfile"
		s.sendPackfile(w)
	case s.inTableNeg:
		for _, h := range req.TableACKs {
			delete(s.tables, string((*h)[:]))
		}
		s.nextTableRound(w)
	default:
		if s.finder == nil {
			if len(req.Wants) == 0 {
				s.fail(w, 400, "empty wants list")
				return
			}
			s.finder = apiutils.NewClosedSetsFinder(s.DB, s.RS, req.Depth)
		}
		s.Stats.NegotiationRounds++
		acks, err := s.finder.Process(payload.HexSliceToBytesSlice(req.Wants), payload.HexSliceToBytesSlice(req.Haves), req.Done)
		if err != nil {
			s.finder = nil
			s.fail(w, 400, "%v", err)
			return
		}
		// negotiation goes on while the finder still holds wants it could not close (it postpones
		// a want whose walk reached a root although common commits exist and the client is not
		// done); the acknowledgements of this round - possibly none - are reported meanwhile
		if len(s.finder.Wants) > 0 && !req.Done {
			w.Header().Set("Content-Type", ctJSON)
			json.NewEncoder(w).Encode(&payload.UploadPackResponse{ACKs: payload.BytesSliceToHexSlice(acks)})
			return
		}
		s.tables, err = s.finder.TablesToSend()
		if err != nil {
			s.fail(w, 500, "TablesToSend: %v", err)
			return
		}
		if s.TableNegotiation && len(s.tables) > 0 {
			s.candTables = nil
			for t := range s.tables {
				s.candTables = append(s.candTables, []byte(t))
			}
			s.nextTableRound(w)
			return
		}
		s.startSending(w)
	}
}

func (s *Server) applyUpdates() map[string]*payload.Update {
	out := map[string]*payload.Update{}
	for name, u := range s.updates {
		res := &payload.Update{Sum: u.Sum, OldSum: u.OldSum}
		out[name] = res
		cur, err := ref.GetRef(s.RS, strings.TrimPrefix(name, "refs/"))
		var want []byte
		if u.OldSum != nil {
			want = (*u.OldSum)[:]
		}
		if (err != nil) != (want == nil) || (err == nil && string(cur) != string(want)) {
			res.ErrMsg = "remote ref updated since checkout"
			continue
		}
		key := strings.TrimPrefix(name, "refs/")
		if u.Sum == nil {
			if err := ref.DeleteRef(s.RS, key); err != nil {
				res.ErrMsg = err.Error()
			}
			continue
		}
		sum := (*u.Sum)[:]
		if !objects.CommitExist(s.DB, sum) {
			res.ErrMsg = "remote did not receive commit"
			continue
		}
		if err := ref.SaveRef(s.RS, key, sum, "server", "server@example.com", "receive-pack", "update ref", nil); err != nil {
			res.ErrMsg = err.Error()
		}
	}
	s.updates, s.receiver = nil, nil
	return out
}

func (s *Server) handleReceivePack(w http.ResponseWriter, r *http.Request) {
	s.mu.Lock()
	defer s.mu.Unlock()
	s.Stats.ReceivePackRequests++
	if ck, err := r.Cookie("receive-pack-session-id"); err != nil || ck.Value != s.rpSession {
		s.updates, s.receiver = nil, nil
		s.sessionSeq++
		s.rpSession = fmt.Sprintf("rp-%d", s.sessionSeq)
	}
	http.SetCookie(w, &http.Cookie{Name: "receive-pack-session-id", Value: s.rpSession, Path: "/"})
	ct := r.Header.Get("Content-Type")
	if strings.Contains(ct, ctJSON) {
		req := &payload.ReceivePackRequest{}
		if err := json.NewDecoder(r.Body).Decode(req); err != nil {
			s.fail(w, 400, "bad request: %v", err)
			return
		}
		if len(req.Updates) > 0 {
			s.updates = req.Updates
			cp := map[string]*payload.Update{}
			for k, v := range req.Updates {
				c := *v
				cp[k] = &c
			}
			s.Stats.UpdateRequests = append(s.Stats.UpdateRequests, cp)
			var expected [][]byte
			for _, u := range req.Updates {
				if u.Sum != nil && !objects.CommitExist(s.DB, (*u.Sum)[:]) {
					expected = append(expected, (*u.Sum)[:])
				}
			}
			if len(expected) == 0 {
				w.Header().Set("Content-Type", ctJSON)
				json.NewEncoder(w).Encode(&payload.ReceivePackResponse{Updates: s.applyUpdates()})
				return
			}
			s.receiver = apiutils.NewObjectReceiver(s.DB, expected, logr.Discard())
		}
		if s.updates == nil {
			s.fail(w, 400, "no update in session")
			return
		}
		var acks [][]byte
		for _, h := range req.TableHaves {
			if objects.TableExist(s.DB, (*h)[:]) {
				acks = append(acks, (*h)[:])
			}
		}
		w.Header().Set("Content-Type", ctJSON)
		json.NewEncoder(w).Encode(&payload.ReceivePackResponse{TableACKs: payload.BytesSliceToHexSlice(acks)})
		return
	}
	if !strings.Contains(ct, ctPackfile) {
		s.fail(w, 400, "unexpected content type %q", ct)
		return
	}
	if s.receiver == nil {
		s.fail(w, 400, "packfile without a session")
		return
	}
	var body io.Reader = r.Body
	if r.Header.Get("Content-Encoding") == "gzip" {
		gz, err := gzip.NewReader(r.Body)
		if err != nil {
			s.fail(w, 400, "gzip: %v", err)
			return
		}
		defer gz.Close()
		body = gz
	}
	pr, err := packfile.NewPackfileReader(io.NopCloser(body))
	if err != nil {
		s.fail(w, 400, "packfile: %v", err)
		return
	}
	done, err := s.receiver.Receive(pr, nil)
	if err != nil {
		s.updates, s.receiver = nil, nil
		s.fail(w, 400, "receive: %v", err)
		return
	}
	s.Stats.PackfilesReceived++
	s.Stats.ObjectsReceived += len(pr.Info.Objects)
	w.Header().Set("Content-Type", ctJSON)
	if done {
		json.NewEncoder(w).Encode(&payload.ReceivePackResponse{Updates: s.applyUpdates()})
		return
	}
	json.NewEncoder(w).Encode(&payload.ReceivePackResponse{})
}
