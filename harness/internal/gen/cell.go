// Package gen holds the rapid generators shared by the property packages and the JSON-safe
// value types the cases are made of.
package gen

import (
	"encoding/json"
	"fmt"
	"strconv"
	"strings"
)

// Cell is an arbitrary byte string that survives a JSON round trip exactly (Go's encoder would
// replace invalid UTF-8). Short cells are written with \xNN escapes, long periodic ones as
// {"rep": unit, "n": length}.
type Cell string

func escape(s string) string {
	var b strings.Builder
	for i := 0; i < len(s); i++ {
		c := s[i]
		if c < 0x20 || c >= 0x7f || c == '\\' {
			fmt.Fprintf(&b, "\\x%02x", c)
		} else {
			b.WriteByte(c)
		}
	}
	return b.String()
}

func unescape(s string) (string, error) {
	var b strings.Builder
	for i := 0; i < len(s); i++ {
		if s[i] == '\\' {
			if i+3 >= len(s) || s[i+1] != 'x' {
				return "", fmt.Errorf("bad escape in %q", s)
			}
			v, err := strconv.ParseUint(s[i+2:i+4], 16, 8)
			if err != nil {
				return "", err
			}
			b.WriteByte(byte(v))
			i += 3
		} else {
			b.WriteByte(s[i])
		}
	}
	return b.String(), nil
}

type repCell struct {
	Rep string `json:"rep"`
	N   int    `json:"n"`
}

func (c Cell) MarshalJSON() ([]byte, error) {
	s := string(c)
	if len(s) > 64 {
		for u := 1; u <= 4; u++ {
			if strings.Repeat(s[:u], len(s)/u+1)[:len(s)] == s {
				return json.Marshal(repCell{escape(s[:u]), len(s)})
			}
		}
	}
	return json.Marshal(escape(s))
}

func (c *Cell) UnmarshalJSON(b []byte) error {
	if len(b) > 0 && b[0] == '{' {
		var r repCell
		if err := json.Unmarshal(b, &r); err != nil {
			return err
		}
		u, err := unescape(r.Rep)
		if err != nil {
			return err
		}
		if u == "" {
			*c = ""
			return nil
		}
		*c = Cell(strings.Repeat(u, r.N/len(u)+1)[:r.N])
		return nil
	}
	var s string
	if err := json.Unmarshal(b, &s); err != nil {
		return err
	}
	u, err := unescape(s)
	if err != nil {
		return err
	}
	*c = Cell(u)
	return nil
}

// Strs converts a row of cells to strings.
func Strs(row []Cell) []string {
	out := make([]string, len(row))
	for i, c := range row {
		out[i] = string(c)
	}
	return out
}

// Cells converts strings to cells.
func Cells(row []string) []Cell {
	out := make([]Cell, len(row))
	for i, c := range row {
		out[i] = Cell(c)
	}
	return out
}

// Rows converts a cell matrix to [][]string.
func Rows(rows [][]Cell) [][]string {
	out := make([][]string, len(rows))
	for i, r := range rows {
		out[i] = Strs(r)
	}
	return out
}
