package gen

import (
	"pgregory.net/rapid"
)

// Node is one commit of a generated history. Parents index earlier nodes.
type Node struct {
	Parents []int `json:"p"`
	Time    int64 `json:"t"`            // unix seconds; independent of topology
	Table   int   `json:"tbl"`          // index into the case's table pool
	Shallow bool  `json:"sh,omitempty"` // table (and its exclusive blocks) absent from the store
}

// DAG is a commit graph in creation order.
type DAG struct {
	Nodes []Node `json:"nodes"`
}

// DAGOpts bounds GenDAG.
type DAGOpts struct {
	MinNodes, MaxNodes int
	MaxParents         int // up to 3 (octopus)
	Tables             int // size of the table pool
	MaxDiamonds        int // cap on stacked criss-cross structure is not enforced here; see Paths
}

const baseTime = 1600000000

// GenDAG draws a history: multiple roots, merges (criss-cross, octopus), and timestamps from one of
// several regimes (topological, reversed, all equal, skewed).
func GenDAG(t *rapid.T, o DAGOpts, label string) DAG {
	if o.MaxParents == 0 {
		o.MaxParents = 3
	}
	if o.Tables == 0 {
		o.Tables = 1
	}
	n := rapid.IntRange(o.MinNodes, o.MaxNodes).Draw(t, label+".n")
	regime := rapid.IntRange(0, 3).Draw(t, label+".timeRegime")
	d := DAG{}
	for i := 0; i < n; i++ {
		nd := Node{Parents: []int{}}
		if i > 0 {
			// 0 parents (new root) is rare; 1 parent common; merges frequent enough
			k := rapid.SampledFrom([]int{1, 1, 1, 2, 2, 3, 0}).Draw(t, label+".nparents")
			if k > o.MaxParents {
				k = o.MaxParents
			}
			if k > i {
				k = i
			}
			seen := map[int]bool{}
			for len(nd.Parents) < k {
				// bias towards recent commits so chains and diamonds form
				back := rapid.IntRange(1, i).Draw(t, label+".back")
				p := i - back
				if !seen[p] {
					seen[p] = true
					nd.Parents = append(nd.Parents, p)
				}
			}
		}
		switch regime {
		case 0:
			nd.Time = baseTime + int64(i)*60
		case 1:
			nd.Time = baseTime - int64(i)*60
		case 2:
			nd.Time = baseTime
		default:
			nd.Time = baseTime + int64(rapid.IntRange(-5, 5).Draw(t, label+".skew"))*3600
		}
		nd.Table = rapid.IntRange(0, o.Tables-1).Draw(t, label+".table")
		d.Nodes = append(d.Nodes, nd)
	}
	return d
}
