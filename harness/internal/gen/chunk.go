package gen

import (
	"io"

	"pgregory.net/rapid"
)

// Schedule describes how a byte stream is delivered by successive Read calls.
type Schedule struct {
	// Chunks are the sizes of successive read results; 0 is a zero-byte read (n=0, err=nil). When
	// the list is exhausted the rest is delivered in one piece. Sizes are capped by the caller's
	// buffer.
	Chunks []int `json:"chunks"`
	// EOFWithData: the final bytes are returned together with io.EOF.
	EOFWithData bool `json:"eof_with_data"`
}

// ChunkReader delivers data according to a Schedule.
type ChunkReader struct {
	Data  []byte
	S     Schedule
	pos   int
	i     int
	Reads int
}

func NewChunkReader(data []byte, s Schedule) *ChunkReader { return &ChunkReader{Data: data, S: s} }

func (r *ChunkReader) Read(p []byte) (int, error) {
	r.Reads++
	if r.pos >= len(r.Data) {
		return 0, io.EOF
	}
	if len(p) == 0 {
		return 0, nil
	}
	n := len(r.Data) - r.pos
	if r.i < len(r.S.Chunks) {
		n = r.S.Chunks[r.i]
		r.i++
		if n == 0 {
			return 0, nil
		}
	}
	if n > len(p) {
		n = len(p)
	}
	if n > len(r.Data)-r.pos {
		n = len(r.Data) - r.pos
	}
	copy(p, r.Data[r.pos:r.pos+n])
	r.pos += n
	if r.pos >= len(r.Data) && r.S.EOFWithData {
		return n, io.EOF
	}
	return n, nil
}

func (r *ChunkReader) Close() error { return nil }

// GenSchedule draws a read schedule for a stream of n bytes: one-byte reads, halves, random
// partitions with zero-byte reads sprinkled in, or the whole buffer.
func GenSchedule(t *rapid.T, n int, label string) Schedule {
	s := Schedule{EOFWithData: rapid.Bool().Draw(t, label+".eofWithData"), Chunks: []int{}}
	switch rapid.IntRange(0, 4).Draw(t, label+".kind") {
	case 0: // whole buffer
	case 1: // one byte at a time
		for i := 0; i < n; i++ {
			s.Chunks = append(s.Chunks, 1)
		}
	case 2: // small fixed chunk
		k := rapid.IntRange(2, 7).Draw(t, label+".k")
		for i := 0; i < n; i += k {
			s.Chunks = append(s.Chunks, k)
		}
	default: // random partition with occasional zero-byte reads
		left := n
		for left > 0 && len(s.Chunks) < 400 {
			c := rapid.IntRange(0, 24).Draw(t, label+".chunk")
			s.Chunks = append(s.Chunks, c)
			left -= c
		}
	}
	return s
}
