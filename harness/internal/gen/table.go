package gen

import (
	"bytes"
	"encoding/csv"
	"fmt"
	"strings"

	"pgregory.net/rapid"
)

// Table is a generated CSV table: distinct non-empty column names, a primary key given as an
// ordered list of column indices (possibly empty) and explicit rows.
type Table struct {
	Cols []string `json:"cols"`
	PK   []int    `json:"pk"`
	Rows [][]Cell `json:"rows"`
}

// PKNames returns the key as wrgl takes it: column names, each name once (with duplicate column
// names one name selects every column carrying it, see TableOpts.DupNames).
func (t Table) PKNames() []string {
	out := make([]string, 0, len(t.PK))
	seen := map[string]bool{}
	for _, k := range t.PK {
		if !seen[t.Cols[k]] {
			seen[t.Cols[k]] = true
			out = append(out, t.Cols[k])
		}
	}
	return out
}

func (t Table) PKu32() []uint32 {
	out := make([]uint32, len(t.PK))
	for i, k := range t.PK {
		out[i] = uint32(k)
	}
	return out
}

// CSV renders the table with encoding/csv and the given delimiter.
func (t Table) CSV(delim rune) []byte {
	var buf bytes.Buffer
	w := csv.NewWriter(&buf)
	if delim != 0 {
		w.Comma = delim
	}
	w.Write(t.Cols)
	for _, r := range t.Rows {
		w.Write(Strs(r))
	}
	w.Flush()
	return buf.Bytes()
}

// ParseCSV is the operational definition of "the CSV's rows": what encoding/csv reads back.
func ParseCSV(b []byte, delim rune) (cols []string, rows [][]string, err error) {
	r := csv.NewReader(bytes.NewReader(b))
	if delim != 0 {
		r.Comma = delim
	}
	recs, err := r.ReadAll()
	if err != nil {
		return nil, nil, err
	}
	if len(recs) == 0 {
		return nil, nil, fmt.Errorf("no header")
	}
	return recs[0], recs[1:], nil
}

var colNamePool = []string{"a", "b", "c", "d", "e", "f", "id", "name", "col x", "K", "v1", "é"}

// RowCounts biased to block boundaries (a block holds 255 rows).
var boundaryRows = []int{0, 1, 2, 3, 254, 255, 256, 509, 510, 511, 765}

// TableOpts bounds the table generator.
type TableOpts struct {
	MaxCols     int
	MaxRows     int  // upper bound for "free" sizes
	Boundary    bool // allow the block-boundary sizes up to MaxRows
	NoSpecial   bool // only plain short cells
	ForcePK     bool // at least one key column
	ForceUnique bool // keys unique (duplicates removed by construction)
	MaxBig      int  // max size class of special long cells: 0 none, 1 1KiB, 2 32KiB, 3 65535
	PreferLarge bool // half of the tables have more than one block
	// DupNames: now and then a non-key column gets the name of a key column. wrgl resolves a key
	// name to every column carrying it, so that column joins the key (PK lists the effective key
	// columns: for each key name in order, all columns of that name).
	DupNames bool
}

var keyComponents = []string{"", "0", "00", "01", "1", "A", "a", "a\x00", "a ", "a\xff", "ab", "abc", "b", "\xff", "é", " ", "\"", ",", "a,b", "x\ny"}

// keyComponent returns the i-th value of an infinite family: a few hand-picked colliding values
// first, then fixed-width counters.
func keyComponent(i int) string {
	if i < len(keyComponents) {
		return keyComponents[i]
	}
	return fmt.Sprintf("k%05d", i-len(keyComponents))
}

// keyTuple spreads idx over n components; the first component has a tiny radix so that composite
// keys tie on it.
func keyTuple(idx, n int) []string {
	out := make([]string, n)
	if n == 1 {
		out[0] = keyComponent(idx)
		return out
	}
	out[0] = keyComponent(idx % 3 * 5) // "", "A", "ab"
	idx /= 3
	for c := 1; c < n-1; c++ {
		out[c] = keyComponent(idx % 2)
		idx /= 2
	}
	out[n-1] = keyComponent(idx)
	return out
}

var specialCells = []string{"", "\"", "\"\"", ",", "|", ";", "\t", "\n", "\r", "\r\n", "a\r\nb", " lead", "trail ", "\xff\xfe", "\x80", "\x00", "a\x00b", "é", "\"quoted\"", "a,b|c;d", "'"}

func bigCell(class int) string {
	switch class {
	case 1:
		return strings.Repeat("x", 1024)
	case 2:
		return strings.Repeat("yz", 16384)
	default:
		return strings.Repeat("w", 65535)
	}
}

// GenTable draws a table.
func GenTable(t *rapid.T, o TableOpts, label string) Table {
	if o.MaxCols == 0 {
		o.MaxCols = 6
	}
	ncols := rapid.IntRange(1, o.MaxCols).Draw(t, label+".ncols")
	names := rapid.Permutation(colNamePool).Draw(t, label+".names")[:ncols]
	tb := Table{Cols: append([]string{}, names...)}
	// primary key: ordered subset of columns
	minPK := 0
	if o.ForcePK {
		minPK = 1
	}
	npk := rapid.IntRange(minPK, min(ncols, 3)).Draw(t, label+".npk")
	if npk > 0 {
		idx := make([]int, ncols)
		for i := range idx {
			idx[i] = i
		}
		tb.PK = rapid.Permutation(idx).Draw(t, label+".pk")[:npk]
	} else {
		tb.PK = []int{}
	}
	if o.DupNames && npk > 0 && ncols > npk && rapid.IntRange(0, 9).Draw(t, label+".dupname") == 0 {
		isKey := map[int]bool{}
		for _, k := range tb.PK {
			isKey[k] = true
		}
		var others []int
		for i := 0; i < ncols; i++ {
			if !isKey[i] {
				others = append(others, i)
			}
		}
		victim := rapid.SampledFrom(others).Draw(t, label+".dupcol")
		tb.Cols[victim] = tb.Cols[rapid.SampledFrom(tb.PK).Draw(t, label+".dupof")]
		var eff []int
		done := map[string]bool{}
		for _, k := range tb.PK {
			n := tb.Cols[k]
			if done[n] {
				continue
			}
			done[n] = true
			for i, c := range tb.Cols {
				if c == n {
					eff = append(eff, i)
				}
			}
		}
		tb.PK = eff
	}
	// row count
	var n int
	if o.Boundary && rapid.IntRange(0, 3).Draw(t, label+".useBoundary") == 0 {
		cands := []int{}
		for _, b := range boundaryRows {
			if b <= o.MaxRows {
				cands = append(cands, b)
			}
		}
		n = rapid.SampledFrom(cands).Draw(t, label+".nrowsB")
	} else {
		n = rapid.IntRange(0, min(o.MaxRows, 40)).Draw(t, label+".nrows")
		if o.MaxRows > 40 && rapid.IntRange(0, 3).Draw(t, label+".large") == 0 {
			n = rapid.IntRange(41, o.MaxRows).Draw(t, label+".nrowsL")
		}
	}
	if o.PreferLarge && o.MaxRows > 256 && rapid.IntRange(0, 1).Draw(t, label+".preferLarge") == 0 {
		cands := []int{}
		for _, b := range []int{600, 511, 765, 300, 1020, 510, 400, 256, 520, 800, 1100} {
			if b <= o.MaxRows {
				cands = append(cands, b)
			}
		}
		n = rapid.SampledFrom(cands).Draw(t, label+".nrowsPL")
	}
	// key range relative to n decides how many duplicates there are
	keyRange := n*4 + 4
	dupMode := rapid.IntRange(0, 3).Draw(t, label+".dup")
	switch dupMode {
	case 0:
		keyRange = n/2 + 1
	case 1:
		keyRange = n + 1
	}
	if o.ForceUnique {
		// random key draws are biased towards small values (many collisions): visit every key once
		dupMode = 3
	}
	// mode 3: every key once, visited with a stride (so sorted runs interleave), plus sprinkled
	// duplicates of other rows' keys - keeps the number of distinct keys close to n
	stride := 1
	if dupMode == 3 && n > 0 {
		stride = rapid.SampledFrom([]int{1, 7, 11, 101, 127}).Draw(t, label+".stride")
		for gcd(stride, n) != 1 {
			stride++
		}
	}
	nk := len(tb.PK)
	keyCols := map[int]int{}
	for i, k := range tb.PK {
		keyCols[k] = i
	}
	seen := map[string]bool{}
	for i := 0; i < n; i++ {
		var kidx int
		if dupMode == 3 {
			kidx = (i * stride) % n
			if !o.ForceUnique && rapid.IntRange(0, 9).Draw(t, label+".sprinkle") == 0 {
				kidx = rapid.IntRange(0, n-1).Draw(t, label+".key")
			}
		} else {
			kidx = rapid.IntRange(0, keyRange-1).Draw(t, label+".key")
		}
		variant := rapid.IntRange(0, 3).Draw(t, label+".var")
		var kt []string
		if nk > 0 {
			kt = keyTuple(kidx, nk)
		}
		row := make([]Cell, ncols)
		for c := 0; c < ncols; c++ {
			if j, ok := keyCols[c]; ok {
				row[c] = Cell(kt[j])
			} else if nk == 0 {
				row[c] = Cell(fmt.Sprintf("%s%d", keyComponent(kidx%23), variant))
			} else {
				row[c] = Cell(fmt.Sprintf("v%d-%d", c, (kidx+variant)%7))
			}
		}
		if !o.NoSpecial && rapid.IntRange(0, 9).Draw(t, label+".special") == 0 {
			c := rapid.IntRange(0, ncols-1).Draw(t, label+".scol")
			if _, isKey := keyCols[c]; !isKey || !o.ForceUnique {
				cls := rapid.IntRange(0, len(specialCells)+o.MaxBig-1).Draw(t, label+".scell")
				if cls < len(specialCells) {
					row[c] = Cell(specialCells[cls])
				} else {
					row[c] = Cell(bigCell(cls - len(specialCells) + 1))
				}
			}
		}
		if o.ForceUnique {
			k := keyString(row, tb.PK)
			if seen[k] {
				continue
			}
			seen[k] = true
		}
		tb.Rows = append(tb.Rows, row)
	}
	if tb.Rows == nil {
		tb.Rows = [][]Cell{}
	}
	return tb
}

func keyString(row []Cell, pk []int) string {
	var b strings.Builder
	if len(pk) == 0 {
		for _, c := range row {
			fmt.Fprintf(&b, "%d:%s|", len(c), c)
		}
		return b.String()
	}
	for _, k := range pk {
		fmt.Fprintf(&b, "%d:%s|", len(row[k]), row[k])
	}
	return b.String()
}

func min(a, b int) int {
	if a < b {
		return a
	}
	return b
}

func gcd(a, b int) int {
	for b != 0 {
		a, b = b, a%b
	}
	return a
}
