// Package syncx builds (local, remote) repository pairs from one generated history that then
// diverges: the local side is a real badger + sqlite repository driven through the in-process CLI,
// the remote side is the reference server over harness memory stores.
package syncx

import (
	"bytes"
	"errors"
	"fmt"
	"io"
	"sort"
	"strings"

	"github.com/wrgl/wrgl/pkg/objects"
	"github.com/wrgl/wrgl/pkg/ref"
	"pgregory.net/rapid"

	"verifharness/internal/cli"
	"verifharness/internal/gen"
	"verifharness/internal/ingestx"
	"verifharness/internal/model"
	"verifharness/internal/refserver"
	"verifharness/internal/stores"
)

// Owner of a commit.
const (
	Both   = 0
	Local  = 1
	Remote = 2
)

type Node struct {
	Parents []int `json:"p"`
	Owner   int   `json:"o"`
	Table   int   `json:"tbl"`
	Time    int64 `json:"t"`
}

// Ref is a name with its value on each side (-1: absent).
type Ref struct {
	Name string `json:"name"`
	L    int    `json:"l"`
	R    int    `json:"r"`
	// R2: value the remote ref is moved to before a second exchange (multi-step histories)
	R2 int `json:"r2"`
}

type Topology struct {
	Nodes []Node `json:"nodes"`
	Refs  []Ref  `json:"refs"`
	// RShallow > 0: the remote holds commit RShallow-1 without its table (a remote that is itself a
	// depth-limited mirror)
	RShallow int `json:"rshallow,omitempty"`
}

var refNames = []string{"heads/main", "heads/dev", "heads/a_b", "tags/v1", "tags/v2", "custom/x", "heads/a/main"}

// GenTopology draws a shared history that diverges.
func GenTopology(t *rapid.T, maxExt int) Topology {
	tp := Topology{}
	add := func(owner int, allowed func(o int) bool) {
		i := len(tp.Nodes)
		nd := Node{Owner: owner, Parents: []int{}, Table: rapid.IntRange(0, 40).Draw(t, "tbl")}
		cands := []int{}
		for j, x := range tp.Nodes {
			if allowed(x.Owner) {
				cands = append(cands, j)
			}
		}
		if len(cands) > 0 {
			k := rapid.SampledFrom([]int{1, 1, 2, 2, 1, 3, 0}).Draw(t, "nparents")
			if k > len(cands) {
				k = len(cands)
			}
			seen := map[int]bool{}
			for len(nd.Parents) < k {
				// prefer recent candidates
				p := cands[len(cands)-1-rapid.IntRange(0, len(cands)-1).Draw(t, "parent")]
				if !seen[p] {
					seen[p] = true
					nd.Parents = append(nd.Parents, p)
				}
			}
		}
		switch rapid.IntRange(0, 2).Draw(t, "timeRegime") {
		case 0:
			nd.Time = 1600000000 + int64(i)*60
		case 1:
			nd.Time = 1600000000 - int64(i)*60
		default:
			nd.Time = 1600000000
		}
		tp.Nodes = append(tp.Nodes, nd)
	}
	for i, n := 0, rapid.IntRange(1, 4).Draw(t, "ncommon"); i < n; i++ {
		add(Both, func(o int) bool { return o == Both })
	}
	for i, n := 0, rapid.IntRange(0, maxExt).Draw(t, "nlocal"); i < n; i++ {
		add(Local, func(o int) bool { return o == Both || o == Local })
	}
	for i, n := 0, rapid.IntRange(0, maxExt).Draw(t, "nremote"); i < n; i++ {
		add(Remote, func(o int) bool { return o == Both || o == Remote })
	}
	if rapid.IntRange(0, 3).Draw(t, "mergeTemplate") == 0 {
		// a<-b<-c on the remote side and a merge w with parents [c, a] or [a, c]: a is within
		// depth 2 of w only through the short path
		base := len(tp.Nodes) - 1
		for base >= 0 && tp.Nodes[base].Owner == Local {
			base--
		}
		if base >= 0 {
			a := len(tp.Nodes)
			mk := func(parents ...int) {
				i := len(tp.Nodes)
				tp.Nodes = append(tp.Nodes, Node{Owner: Remote, Parents: parents, Table: rapid.IntRange(0, 40).Draw(t, "tbl"), Time: 1600000000 + int64(i)*60})
			}
			mk(base)
			mk(a)
			mk(a + 1)
			if rapid.Bool().Draw(t, "farFirst") {
				mk(a+2, a)
			} else {
				mk(a, a+2)
			}
		}
	}
	pick := func(side int, label string) int {
		cands := []int{-1}
		for j, x := range tp.Nodes {
			if x.Owner == Both || x.Owner == side {
				cands = append(cands, j)
			}
		}
		// prefer tips
		return cands[len(cands)-1-rapid.IntRange(0, len(cands)-1).Draw(t, label)]
	}
	names := rapid.Permutation(refNames).Draw(t, "refnames")[:rapid.IntRange(1, 4).Draw(t, "nrefs")]
	for _, n := range names {
		tp.Refs = append(tp.Refs, Ref{Name: n, L: pick(Local, "refL"), R: pick(Remote, "refR"), R2: pick(Remote, "refR2")})
	}
	return tp
}

// World is a built pair.
type World struct {
	T       Topology
	Repo    *cli.Repo
	Server  *refserver.Server
	Sums    [][]byte
	Tables  [][]byte // table sum per node
	G       model.Graph
	Uni     *stores.Mem // every object of the whole history
	closeRS func()
}

func copyKey(src *stores.Mem, dst objects.Store, k string) error {
	if v, ok := src.Raw(k); ok {
		return dst.Set([]byte(k), v)
	}
	return nil
}

func copyTable(src *stores.Mem, dst objects.Store, sum []byte) error {
	tbl, err := objects.GetTable(src, sum)
	if err != nil {
		return err
	}
	for _, b := range tbl.Blocks {
		if err := copyKey(src, dst, "blk/"+string(b)); err != nil {
			return err
		}
	}
	for _, b := range tbl.BlockIndices {
		if err := copyKey(src, dst, "blkidx/"+string(b)); err != nil {
			return err
		}
	}
	for _, p := range []string{"tblidx/", "tblsum/", "tbl/"} {
		if err := copyKey(src, dst, p+string(sum)); err != nil {
			return err
		}
	}
	return nil
}

// Build creates both repositories.
func Build(tp Topology, h2 ...bool) (*World, error) {
	w := &World{T: tp, Uni: stores.NewMem()}
	// one table per distinct Table value: 300 rows (2 blocks); the second block is specific to the
	// table (so that the presence of a table is specific to the commits carrying it), the first
	// block comes in four variants (Table%4) shared between tables - a repository may hold a table
	// without holding the first block of another one. Variant 3 ends its first block with an empty cell.
	tableFor := map[int][]byte{}
	d := gen.DAG{}
	var err error
	for i, n := range tp.Nodes {
		ts, ok := tableFor[n.Table]
		if !ok {
			t := gen.Table{Cols: []string{"id", "v"}, PK: []int{0}}
			for r := 0; r < 300; r++ {
				val := "x"
				if r == 290 {
					val = fmt.Sprintf("variant-%d", n.Table)
				}
				if r == 10 && n.Table%4 != 0 {
					val = fmt.Sprintf("first-block-%d", n.Table%4)
				}
				if r == 254 && n.Table%4 == 3 {
					val = ""
				}
				t.Rows = append(t.Rows, []gen.Cell{gen.Cell(fmt.Sprintf("k%05d", r)), gen.Cell(val)})
			}
			ts, err = ingestx.Simple(w.Uni, t)
			if err != nil {
				return nil, err
			}
			tableFor[n.Table] = ts
		}
		w.Tables = append(w.Tables, ts)
		d.Nodes = append(d.Nodes, gen.Node{Parents: n.Parents, Time: n.Time, Table: i})
	}
	w.Sums, err = stores.BuildHistory(w.Uni, d, w.Tables)
	if err != nil {
		return nil, err
	}
	w.G = model.Graph{Parents: stores.GraphOf(d)}
	// remote
	rdb := stores.NewMem()
	rrs, _, closeRS, err := stores.NewRefStore()
	if err != nil {
		return nil, err
	}
	w.closeRS = closeRS
	for i, n := range tp.Nodes {
		if n.Owner == Both || n.Owner == Remote {
			copyKey(w.Uni, rdb, "com/"+string(w.Sums[i]))
			if tp.RShallow == i+1 {
				continue
			}
			if err := copyTable(w.Uni, rdb, w.Tables[i]); err != nil {
				return nil, err
			}
		}
	}
	for _, r := range tp.Refs {
		if r.R >= 0 {
			if err := ref.SaveRef(rrs, r.Name, w.Sums[r.R], "remote", "remote@example.com", "commit", "init", nil); err != nil {
				return nil, err
			}
		}
	}
	if len(h2) > 0 && h2[0] {
		w.Server = refserver.NewH2(rdb, rrs)
	} else {
		w.Server = refserver.New(rdb, rrs)
	}
	// local
	w.Repo, err = cli.NewRepo()
	if err != nil {
		return nil, err
	}
	ldb, lrs, closeL, err := w.Repo.Open()
	if err != nil {
		return nil, err
	}
	for i, n := range tp.Nodes {
		if n.Owner == Both || n.Owner == Local {
			if err := copyKey(w.Uni, ldb, "com/"+string(w.Sums[i])); err != nil {
				closeL()
				return nil, err
			}
			if err := copyTable(w.Uni, ldb, w.Tables[i]); err != nil {
				closeL()
				return nil, err
			}
		}
	}
	for _, r := range tp.Refs {
		if r.L >= 0 {
			if err := ref.SaveRef(lrs, r.Name, w.Sums[r.L], "local", "local@example.com", "commit", "init", nil); err != nil {
				closeL()
				return nil, err
			}
		}
	}
	closeL()
	if out, err := w.Repo.Run("remote", "add", "origin", w.Server.URL); err != nil {
		return nil, fmt.Errorf("remote add: %v (%s)", err, out)
	}
	return w, nil
}

func (w *World) Close() {
	if w.Server != nil {
		w.Server.Close()
	}
	if w.closeRS != nil {
		w.closeRS()
	}
	if w.Repo != nil {
		w.Repo.Remove()
	}
}

// NodeOf maps a commit sum back to its node (-1 unknown).
func (w *World) NodeOf(sum []byte) int {
	for i, s := range w.Sums {
		if bytes.Equal(s, sum) {
			return i
		}
	}
	return -1
}

// RefState is the refs and their logs of one side.
type RefState struct {
	Refs map[string][]byte
	Logs map[string][]LogEntry
}

type LogEntry struct {
	Old, New []byte
	Action   string
	Message  string
}

// ReadRefs snapshots a ref store.
func ReadRefs(rs ref.Store) (*RefState, error) {
	st := &RefState{Logs: map[string][]LogEntry{}}
	var err error
	st.Refs, err = ref.ListAllRefs(rs)
	if err != nil {
		return nil, err
	}
	for name := range st.Refs {
		r, err := rs.LogReader(name)
		if err != nil {
			continue
		}
		for {
			rl, err := r.Read()
			if errors.Is(err, io.EOF) {
				break
			}
			if err != nil {
				r.Close()
				return nil, err
			}
			st.Logs[name] = append(st.Logs[name], LogEntry{rl.OldOID, rl.NewOID, rl.Action, rl.Message})
		}
		r.Close()
	}
	return st, nil
}

// LocalRefs snapshots the local repository's refs.
func (w *World) LocalRefs() (*RefState, error) {
	_, rs, closeFn, err := w.Repo.Open()
	if err != nil {
		return nil, err
	}
	defer closeFn()
	return ReadRefs(rs)
}

// Describe renders a ref state compactly for messages.
func (st *RefState) Describe(w *World) string {
	names := []string{}
	for n := range st.Refs {
		names = append(names, n)
	}
	sort.Strings(names)
	var b strings.Builder
	for _, n := range names {
		fmt.Fprintf(&b, "%s=c%d ", n, w.NodeOf(st.Refs[n]))
	}
	return b.String()
}

// CheckClosure verifies, inside db, that every ancestor of the commit exists and that tables,
// blocks and indices are present and byte-identical to the universe for every commit within depth
// (all when depth is 0).
func (w *World) CheckClosure(db objects.Store, node int, depth int, requireTablesFrom map[int]bool) error {
	dist := map[int]int{node: 0}
	queue := []int{node}
	for len(queue) > 0 {
		x := queue[0]
		queue = queue[1:]
		b, err := db.Get(append([]byte("com/"), w.Sums[x]...))
		if err != nil {
			return fmt.Errorf("commit c%d (distance %d from c%d) is missing", x, dist[x], node)
		}
		want, _ := w.Uni.Raw("com/" + string(w.Sums[x]))
		if !bytes.Equal(b, want) {
			return fmt.Errorf("commit c%d differs from the sender's object", x)
		}
		if depth == 0 || dist[x] < depth || requireTablesFrom[x] {
			if err := w.checkTable(db, w.Tables[x], x); err != nil {
				return err
			}
		}
		for _, p := range w.T.Nodes[x].Parents {
			if _, ok := dist[p]; !ok {
				dist[p] = dist[x] + 1
				queue = append(queue, p)
			}
		}
	}
	return nil
}

func (w *World) checkTable(db objects.Store, sum []byte, node int) error {
	same := func(k string) error {
		b, err := db.Get([]byte(k))
		if err != nil {
			return fmt.Errorf("%s%x of commit c%d is missing", k[:strings.IndexByte(k, '/')+1], k[strings.IndexByte(k, '/')+1:], node)
		}
		want, _ := w.Uni.Raw(k)
		if !bytes.Equal(b, want) {
			return fmt.Errorf("%s%x of commit c%d differs from the sender's object", k[:strings.IndexByte(k, '/')+1], k[strings.IndexByte(k, '/')+1:], node)
		}
		return nil
	}
	if err := same("tbl/" + string(sum)); err != nil {
		return err
	}
	tbl, _ := objects.GetTable(w.Uni, sum)
	for _, b := range tbl.Blocks {
		if err := same("blk/" + string(b)); err != nil {
			return err
		}
	}
	for _, b := range tbl.BlockIndices {
		if err := same("blkidx/" + string(b)); err != nil {
			return err
		}
	}
	if err := same("tblidx/" + string(sum)); err != nil {
		return err
	}
	if _, err := db.Get(append([]byte("tblsum/"), sum...)); err != nil {
		return fmt.Errorf("profile of table of commit c%d is missing", node)
	}
	return nil
}
