// Package streams generates valid encoded streams of every kind wrgl decodes and decodes them back
// into a canonical rendering (shared by the chunking and hostile-bytes checks).
package streams

import (
	"bytes"
	"errors"
	"fmt"
	"io"
	"strings"
	"time"

	"github.com/wrgl/wrgl/pkg/encoding"
	"github.com/wrgl/wrgl/pkg/encoding/packfile"
	"github.com/wrgl/wrgl/pkg/encoding/pktline"
	"github.com/wrgl/wrgl/pkg/misc"
	"github.com/wrgl/wrgl/pkg/objects"
	"pgregory.net/rapid"

	"verifharness/internal/model"
)

func Sum16(i int) []byte { return bytes.Repeat([]byte{byte(i)}, 16) }

func CommitBytes(t *rapid.T) []byte {
	c := &objects.Commit{Table: Sum16(rapid.IntRange(0, 255).Draw(t, "tbl")),
		AuthorName:  rapid.SampledFrom([]string{"", "a", "John Doe", "x\ny"}).Draw(t, "name"),
		AuthorEmail: rapid.SampledFrom([]string{"", "j@d.com"}).Draw(t, "email"),
		Message:     rapid.SampledFrom([]string{"", "m", strings.Repeat("msg ", 40)}).Draw(t, "msg"),
		Time:        time.Unix(int64(rapid.IntRange(0, 2000000000).Draw(t, "sec")), 0).In(time.FixedZone("", 3600*rapid.IntRange(-3, 3).Draw(t, "zone")))}
	for i, n := 0, rapid.IntRange(0, 3).Draw(t, "nparents"); i < n; i++ {
		c.Parents = append(c.Parents, Sum16(i+7))
	}
	var buf bytes.Buffer
	c.WriteTo(&buf)
	return buf.Bytes()
}

func TableBytes(t *rapid.T) []byte {
	n := rapid.IntRange(0, 4).Draw(t, "ncols")
	cols := []string{"a", "b", "col c", "d"}[:n]
	rows := rapid.SampledFrom([]int{0, 1, 255, 256, 600}).Draw(t, "rows")
	tb := objects.NewTable(cols, nil)
	if n > 0 {
		tb.PK = []uint32{uint32(rapid.IntRange(0, n-1).Draw(t, "pk"))}
	}
	tb.RowsCount = uint32(rows)
	for i := 0; i < (rows+254)/255; i++ {
		tb.Blocks = append(tb.Blocks, Sum16(i+1))
		tb.BlockIndices = append(tb.BlockIndices, Sum16(i+100))
	}
	var buf bytes.Buffer
	tb.WriteTo(&buf)
	return buf.Bytes()
}

func SmallRows(t *rapid.T) [][]string {
	n := rapid.IntRange(1, 6).Draw(t, "nrows")
	rows := [][]string{}
	for i := 0; i < n; i++ {
		rows = append(rows, []string{fmt.Sprintf("k%d", i), rapid.SampledFrom([]string{"", "v", "a,b", strings.Repeat("z", 300)}).Draw(t, "cell"), "t"})
	}
	return rows
}

func BlockIndexBytes(rows [][]string) []byte {
	idx, _ := objects.IndexBlock(objects.NewStrListEncoder(true), model.NewHash(), rows, []uint32{0})
	var buf bytes.Buffer
	idx.WriteTo(&buf)
	return buf.Bytes()
}

func ProfileBytes(t *rapid.T) []byte {
	p := &objects.TableProfile{RowsCount: 3}
	for i, n := 0, rapid.IntRange(0, 3).Draw(t, "ncols"); i < n; i++ {
		f := 1.5
		col := &objects.ColumnProfile{Name: fmt.Sprintf("c%d", i), NACount: 1, MaxStrLen: 9}
		if rapid.Bool().Draw(t, "stats") {
			col.Min, col.Mean = &f, &f
			col.Percentiles = []float64{1, 2, 3}
			col.TopValues = objects.ValueCounts{{Value: "a", Count: 2}, {Value: "", Count: 1}}
		}
		p.Columns = append(p.Columns, col)
	}
	var buf bytes.Buffer
	p.WriteTo(&buf)
	return buf.Bytes()
}

func Gen(t *rapid.T) (kind string, data []byte, fields int) {
	kind = rapid.SampledFrom([]string{"packfile", "packfile", "pktline", "commit", "table", "block", "blockindex", "profile", "strlist", "strlistbytes"}).Draw(t, "kind")
	switch kind {
	case "packfile":
		var buf bytes.Buffer
		w, _ := packfile.NewPackfileWriter(&buf)
		n := rapid.IntRange(0, 4).Draw(t, "nobjs")
		for i := 0; i < n; i++ {
			switch rapid.IntRange(0, 2).Draw(t, "objkind") {
			case 0:
				w.WriteObject(packfile.ObjectCommit, CommitBytes(t))
			case 1:
				w.WriteObject(packfile.ObjectTable, TableBytes(t))
			default:
				w.WriteObject(packfile.ObjectBlock, model.EncodeBlock(SmallRows(t)))
			}
		}
		return kind, buf.Bytes(), n
	case "pktline":
		var buf bytes.Buffer
		n := rapid.IntRange(1, 6).Draw(t, "nlines")
		for i := 0; i < n; i++ {
			pktline.WritePktLine(&buf, misc.NewBuffer(nil), rapid.SampledFrom([]string{"", "want 0123", "have abcdef", "done", strings.Repeat("x", 200)}).Draw(t, "line"))
		}
		return kind, buf.Bytes(), n
	case "commit":
		return kind, CommitBytes(t), 5
	case "table":
		return kind, TableBytes(t), 3
	case "block":
		r := SmallRows(t)
		return kind, model.EncodeBlock(r), len(r)
	case "blockindex":
		r := SmallRows(t)
		return kind, BlockIndexBytes(r), len(r)
	case "profile":
		return kind, ProfileBytes(t), 5
	default:
		r := SmallRows(t)
		var b []byte
		for _, row := range r {
			b = append(b, model.EncodeStrList(row)...)
		}
		return kind, b, len(r)
	}
}

// Decode reads the whole stream with the decoder for its kind and returns a canonical rendering of
// what was decoded plus the terminal condition.
func Decode(kind string, r io.Reader) (string, error) {
	var out strings.Builder
	switch kind {
	case "packfile":
		pr, err := packfile.NewPackfileReader(io.NopCloser(r))
		if err != nil {
			return "", fmt.Errorf("NewPackfileReader: %v", err)
		}
		for i := 0; i < 100; i++ {
			ty, b, err := pr.ReadObject()
			if err != nil {
				if errors.Is(err, io.EOF) {
					fmt.Fprintf(&out, "EOF")
					return out.String(), nil
				}
				return out.String(), fmt.Errorf("ReadObject #%d: %v", i, err)
			}
			fmt.Fprintf(&out, "obj(%d,%x);", ty, model.Sum(b))
		}
	case "pktline":
		p := encoding.NewParser(r)
		for i := 0; i < 100; i++ {
			s, err := pktline.ReadPktLine(p)
			if err != nil {
				if errors.Is(err, io.EOF) {
					fmt.Fprintf(&out, "EOF")
					return out.String(), nil
				}
				return out.String(), fmt.Errorf("ReadPktLine #%d: %v", i, err)
			}
			fmt.Fprintf(&out, "line(%q);", s)
		}
	case "commit":
		_, c, err := objects.ReadCommitFrom(r)
		if err != nil {
			return "", err
		}
		fmt.Fprintf(&out, "%x|%q|%q|%d|%q|%x", c.Table, c.AuthorName, c.AuthorEmail, c.Time.Unix(), c.Message, c.Parents)
	case "table":
		_, tb, err := objects.ReadTableFrom(r)
		if err != nil {
			return "", err
		}
		fmt.Fprintf(&out, "%q|%v|%d|%x|%x", tb.Columns, tb.PK, tb.RowsCount, tb.Blocks, tb.BlockIndices)
	case "block":
		_, blk, err := objects.ReadBlockFrom(r)
		if err != nil {
			return "", err
		}
		fmt.Fprintf(&out, "%q", blk)
	case "blockindex":
		_, idx, err := objects.ReadBlockIndex(r)
		if err != nil {
			return "", err
		}
		var buf bytes.Buffer
		idx.WriteTo(&buf)
		fmt.Fprintf(&out, "%x", buf.Bytes())
	case "profile":
		p := &objects.TableProfile{}
		if _, err := p.ReadFrom(r); err != nil {
			return "", err
		}
		var buf bytes.Buffer
		p.WriteTo(&buf)
		fmt.Fprintf(&out, "%x", buf.Bytes())
	case "strlist":
		dec := objects.NewStrListDecoder(false)
		for i := 0; i < 100; i++ {
			_, sl, err := dec.Read(r)
			if err != nil {
				if errors.Is(err, io.EOF) {
					fmt.Fprintf(&out, "EOF")
					return out.String(), nil
				}
				return out.String(), err
			}
			fmt.Fprintf(&out, "%q;", sl)
		}
	case "strlistbytes":
		dec := objects.NewStrListDecoder(false)
		for i := 0; i < 100; i++ {
			_, b, err := dec.ReadBytes(r)
			if err != nil {
				if errors.Is(err, io.EOF) {
					fmt.Fprintf(&out, "EOF")
					return out.String(), nil
				}
				return out.String(), err
			}
			fmt.Fprintf(&out, "%x;", b)
		}
	}
	return out.String(), nil
}
