// Package tblcheck is the C03 validator: every structural clause of "a stored table is sound and
// its indices agree with its rows", checked from the objects read back out of a store. Hashes are
// computed with the harness's own reference encoder.
package tblcheck

import (
	"bytes"
	"context"
	"fmt"
	"time"

	"github.com/go-logr/logr"
	"github.com/wrgl/wrgl/pkg/conf"
	"github.com/wrgl/wrgl/pkg/doctor"
	"github.com/wrgl/wrgl/pkg/objects"
	"github.com/wrgl/wrgl/pkg/ref"

	"verifharness/internal/model"
	"verifharness/internal/stores"
)

// Read returns the table object and all its rows, block by block.
func Read(db objects.Store, sum []byte) (tbl *objects.Table, blocks [][][]string, err error) {
	tbl, err = objects.GetTable(db, sum)
	if err != nil {
		return nil, nil, fmt.Errorf("GetTable(%x): %v", sum, err)
	}
	var bb []byte
	for i, bs := range tbl.Blocks {
		var blk [][]string
		blk, bb, err = objects.GetBlock(db, bb, bs)
		if err != nil {
			return nil, nil, fmt.Errorf("GetBlock #%d (%x): %v", i, bs, err)
		}
		blocks = append(blocks, blk)
	}
	return tbl, blocks, nil
}

// Rows flattens blocks.
func Rows(blocks [][][]string) [][]string {
	var out [][]string
	for _, b := range blocks {
		out = append(out, b...)
	}
	return out
}

func pkInts(pk []uint32) []int {
	out := make([]int, len(pk))
	for i, k := range pk {
		out[i] = int(k)
	}
	return out
}

// Validate checks every clause of C03 except the doctor diagnosis (which needs a ref store; see
// Diagnose). It returns the rows of the table.
func Validate(db objects.Store, sum []byte) ([][]string, error) {
	tbl, blocks, err := Read(db, sum)
	if err != nil {
		return nil, err
	}
	pk := pkInts(tbl.PK)
	for _, k := range pk {
		if k >= len(tbl.Columns) {
			return nil, fmt.Errorf("pk index %d out of range of %d columns", k, len(tbl.Columns))
		}
	}
	rows := Rows(blocks)
	if int(tbl.RowsCount) != len(rows) {
		return rows, fmt.Errorf("RowsCount=%d but %d rows are present", tbl.RowsCount, len(rows))
	}
	if len(tbl.BlockIndices) != len(tbl.Blocks) {
		return rows, fmt.Errorf("%d blocks but %d block indices", len(tbl.Blocks), len(tbl.BlockIndices))
	}
	for i, b := range blocks {
		if i < len(blocks)-1 && len(b) != 255 {
			return rows, fmt.Errorf("block %d of %d has %d rows, want 255", i, len(blocks), len(b))
		}
		if len(b) < 1 || len(b) > 255 {
			return rows, fmt.Errorf("block %d has %d rows, want 1..255", i, len(b))
		}
		for j, r := range b {
			if len(r) != len(tbl.Columns) {
				return rows, fmt.Errorf("block %d row %d has %d cells for %d columns", i, j, len(r), len(tbl.Columns))
			}
		}
	}
	for i := 1; i < len(rows); i++ {
		if model.CmpTuple(model.KeyOf(rows[i-1], pk), model.KeyOf(rows[i], pk)) >= 0 {
			return rows, fmt.Errorf("keys not strictly increasing at row %d: %q then %q", i, model.KeyOf(rows[i-1], pk), model.KeyOf(rows[i], pk))
		}
	}
	var bb []byte
	for i, b := range blocks {
		if want := model.Sum(model.EncodeBlock(b)); !bytes.Equal(want, tbl.Blocks[i]) {
			return rows, fmt.Errorf("block %d is stored under %x but its rows hash to %x", i, tbl.Blocks[i], want)
		}
		var idx *objects.BlockIndex
		idx, bb, err = objects.GetBlockIndex(db, bb, tbl.BlockIndices[i])
		if err != nil {
			return rows, fmt.Errorf("GetBlockIndex #%d (%x): %v", i, tbl.BlockIndices[i], err)
		}
		if idx.Len() != len(b) {
			return rows, fmt.Errorf("block index %d has %d entries for %d rows", i, idx.Len(), len(b))
		}
		for j, r := range b {
			off, rs := idx.Get(model.KeySum(r, pk))
			if rs == nil {
				return rows, fmt.Errorf("block index %d has no entry for the key of row %d %q", i, j, model.KeyOf(r, pk))
			}
			if int(off) != j {
				return rows, fmt.Errorf("block index %d maps key of row %d to position %d", i, j, off)
			}
			if !bytes.Equal(rs, model.RowSum(r)) {
				return rows, fmt.Errorf("block index %d maps key of row %d to row hash %x, want %x", i, j, rs, model.RowSum(r))
			}
		}
		var buf bytes.Buffer
		if _, err := idx.WriteTo(&buf); err != nil {
			return rows, err
		}
		if got := model.Sum(buf.Bytes()); !bytes.Equal(got, tbl.BlockIndices[i]) {
			return rows, fmt.Errorf("block index %d stored under %x but re-encodes to %x", i, tbl.BlockIndices[i], got)
		}
	}
	tidx, err := objects.GetTableIndex(db, sum)
	if err != nil {
		return rows, fmt.Errorf("GetTableIndex: %v", err)
	}
	if len(tidx) != len(blocks) {
		return rows, fmt.Errorf("table index has %d entries for %d blocks", len(tidx), len(blocks))
	}
	for i, b := range blocks {
		want := model.KeyOf(b[0], pk)
		if !model.RowsEqual(tidx[i], want) {
			return rows, fmt.Errorf("table index entry %d is %q, first row of the block has key %q", i, tidx[i], want)
		}
	}
	return rows, nil
}

// Diagnose runs wrgl's own doctor over a scratch ref pointing at a commit of the table and
// returns the issues it reports.
func Diagnose(db objects.Store, sum []byte) ([]string, error) {
	rs, _, closeFn, err := stores.NewRefStore()
	if err != nil {
		return nil, fmt.Errorf("HARNESS: ref store: %v", err)
	}
	defer closeFn()
	com, err := stores.SaveCommit(db, sum, nil, time.Unix(1700000000, 0), "c")
	if err != nil {
		return nil, fmt.Errorf("HARNESS: save commit: %v", err)
	}
	if err := ref.CommitHead(rs, "main", com, &objects.Commit{AuthorName: "v", AuthorEmail: "v@x", Message: "c"}, nil); err != nil {
		return nil, fmt.Errorf("HARNESS: save head: %v", err)
	}
	d := doctor.NewDoctor(db, rs, conf.User{Name: "v", Email: "v@x"}, logr.Discard())
	ch, errCh, err := d.Diagnose(context.Background(), nil, nil, nil)
	if err != nil {
		return nil, fmt.Errorf("doctor.Diagnose: %v", err)
	}
	var out []string
	for ri := range ch {
		for _, iss := range ri.Issues {
			out = append(out, fmt.Sprintf("%s: %s (%s)", ri.Ref, iss.Err, iss.Resolution))
		}
	}
	if err, ok := <-errCh; ok && err != nil {
		return out, fmt.Errorf("doctor.Diagnose: %v", err)
	}
	return out, nil
}
