// Package ingestx drives wrgl's ingest pipeline for generated tables under a generated
// configuration (delimiter, sorter run size = number of spill files, worker count).
package ingestx

import (
	"bytes"
	"fmt"
	"io"

	"github.com/go-logr/logr"
	"github.com/wrgl/wrgl/pkg/ingest"
	"github.com/wrgl/wrgl/pkg/objects"
	"github.com/wrgl/wrgl/pkg/sorter"
	"pgregory.net/rapid"

	"verifharness/internal/gen"
)

// Config is one ingest configuration.
type Config struct {
	Delim   string `json:"delim"`   // one of , | ; \t and the multi-byte ¦ →
	Spills  int    `json:"spills"`  // 0 none, k about k sorted runs, -1 every row spills
	Workers int    `json:"workers"` // value passed to WithNumWorkers (the inserter uses max(1,n-2) goroutines)
}

func (c Config) Rune() rune {
	if c.Delim == "" {
		return ','
	}
	return []rune(c.Delim)[0]
}

// GenConfig draws a configuration.
func GenConfig(t *rapid.T, label string) Config {
	return Config{
		Delim:   rapid.SampledFrom([]string{",", ",", "|", ";", "\t", "¦", "→"}).Draw(t, label+".delim"),
		Spills:  rapid.SampledFrom([]int{0, 0, 1, 2, 5, -1}).Draw(t, label+".spills"),
		Workers: rapid.SampledFrom([]int{1, 1, 3, 4, 2, 8, 16}).Draw(t, label+".workers"),
	}
}

// RunSize computes the sorter run size that yields about cfg.Spills runs for these rows.
func RunSize(rows [][]string, spills int) uint64 {
	total := uint64(0)
	for _, r := range rows {
		total += 4
		for _, s := range r {
			total += uint64(len(s)) + 2
		}
	}
	switch {
	case spills < 0:
		return 1
	case spills > 0:
		return total/uint64(spills) + 1
	}
	return total + 1<<20
}

// CSVBytes ingests raw CSV bytes.
func CSVBytes(db objects.Store, csvBytes []byte, rows [][]string, pk []string, cfg Config) ([]byte, error) {
	s, err := sorter.NewSorter(sorter.WithRunSize(RunSize(rows, cfg.Spills)), sorter.WithDelimiter(cfg.Rune()))
	if err != nil {
		return nil, fmt.Errorf("HARNESS: NewSorter: %v", err)
	}
	return ingest.IngestTable(db, s, io.NopCloser(bytes.NewReader(csvBytes)), pk, logr.Discard(), ingest.WithNumWorkers(cfg.Workers))
}

// Table renders and ingests a generated table.
func Table(db objects.Store, t gen.Table, cfg Config) ([]byte, error) {
	return CSVBytes(db, t.CSV(cfg.Rune()), gen.Rows(t.Rows), t.PKNames(), cfg)
}

// Simple ingests with the default configuration (no spill, one worker).
func Simple(db objects.Store, t gen.Table) ([]byte, error) {
	return Table(db, t, Config{Delim: ",", Workers: 1})
}
