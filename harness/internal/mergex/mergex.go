// Package mergex drives wrgl's three-way merge the way `wrgl merge` does: Merger.Start, collect the
// unresolved records (discarding them with SaveResolvedRow(pk, nil) like the --no-gui path), then
// read the result through SortedRows or through SortedBlocks + IngestTableFromBlocks.
package mergex

import (
	"context"
	"fmt"
	"time"

	"github.com/go-logr/logr"
	"github.com/wrgl/wrgl/pkg/diff"
	"github.com/wrgl/wrgl/pkg/ingest"
	"github.com/wrgl/wrgl/pkg/merge"
	"github.com/wrgl/wrgl/pkg/objects"
	"github.com/wrgl/wrgl/pkg/progress"
	"github.com/wrgl/wrgl/pkg/slice"
	"github.com/wrgl/wrgl/pkg/sorter"
)

// Result of one merge run.
type Result struct {
	Columns    []string            // merged header without removed columns
	PK         []string            // key column names
	Rows       [][]string          // result rows in output order
	Unresolved map[string]*Unres   // key hash -> record
	TableSum   []byte              // set by the blocks mode: the ingested result table
}

// Unres is an unresolved (conflict) record.
type Unres struct {
	PK             []byte
	UnresolvedCols []string
	HasBase        bool
	Removed        []bool // per branch: row absent although base has it
}

// Opts tunes the progress tracker handling of a run.
type Opts struct {
	Period    time.Duration // progress tracker period (default 65ms, the CLI's)
	Consume   bool          // start the merger's progress tracker and consume its events the way collectMergeConflicts does
	StopDelay time.Duration // pause between the end of the merge channel and Progress.Stop()
}

// Run merges otherSums (tables) against baseSum. mode is "rows" or "blocks".
func Run(db objects.Store, baseSum []byte, otherSums [][]byte, mode string) (*Result, error) {
	return RunWith(db, baseSum, otherSums, mode, Opts{})
}

// RunWith is Run with explicit progress handling.
func RunWith(db objects.Store, baseSum []byte, otherSums [][]byte, mode string, opts Opts) (*Result, error) {
	if opts.Period == 0 {
		opts.Period = 65 * time.Millisecond
	}
	baseT, err := objects.GetTable(db, baseSum)
	if err != nil {
		return nil, fmt.Errorf("HARNESS: base table: %v", err)
	}
	otherTs := make([]*objects.Table, len(otherSums))
	for i, s := range otherSums {
		otherTs[i], err = objects.GetTable(db, s)
		if err != nil {
			return nil, fmt.Errorf("HARNESS: other table: %v", err)
		}
	}
	buf, err := diff.BlockBufferWithSingleStore(db, append([]*objects.Table{baseT}, otherTs...))
	if err != nil {
		return nil, fmt.Errorf("BlockBuffer: %v", err)
	}
	collector, cleanup, err := merge.CreateRowCollector(db, baseT)
	if err != nil {
		return nil, fmt.Errorf("CreateRowCollector: %v", err)
	}
	defer cleanup()
	merger, err := merge.NewMerger(db, collector, buf, opts.Period, baseT, otherTs, baseSum, otherSums, logr.Discard())
	if err != nil {
		return nil, fmt.Errorf("NewMerger: %v", err)
	}
	mc, err := merger.Start()
	if err != nil {
		return nil, fmt.Errorf("Merger.Start: %v", err)
	}
	res := &Result{Unresolved: map[string]*Unres{}}
	var cd *diff.ColDiff
	var pch <-chan progress.Event // nil (blocks forever) unless the tracker is consumed
	if opts.Consume {
		pch = merger.Progress.Start()
	}
	for {
		var m *merge.Merge
		var ok bool
		select {
		case <-pch:
			continue
		case m, ok = <-mc:
		}
		if !ok {
			break
		}
		if m.ColDiff != nil {
			cd = m.ColDiff
			// like outputConflicts: the layout is asked for as soon as the first message is in
			// hand, while the collector goroutine goes on
			if cols := merger.Columns(nil); len(cols) != cd.Len() {
				return nil, fmt.Errorf("right after the layout message Columns() has %d names, the layout %d", len(cols), cd.Len())
			}
			_ = merger.PK()
			continue
		}
		u := &Unres{PK: append([]byte{}, m.PK...), HasBase: m.Base != nil}
		for c := range m.UnresolvedCols {
			if cd != nil && int(c) < len(cd.Names) {
				u.UnresolvedCols = append(u.UnresolvedCols, cd.Names[c])
			}
		}
		for _, o := range m.Others {
			u.Removed = append(u.Removed, o == nil && m.Base != nil)
		}
		if _, dup := res.Unresolved[string(m.PK)]; dup {
			return nil, fmt.Errorf("key %x reported unresolved twice", m.PK)
		}
		res.Unresolved[string(m.PK)] = u
	}
	if opts.Consume {
		if opts.StopDelay > 0 {
			time.Sleep(opts.StopDelay)
		}
		merger.Progress.Stop()
	}
	// like outputConflicts: the channel is drained first, only then are the unresolved keys
	// discarded (SaveResolvedRow is also called by the collector goroutine while it runs)
	for _, u := range res.Unresolved {
		if err := merger.SaveResolvedRow(u.PK, nil); err != nil {
			return nil, fmt.Errorf("SaveResolvedRow: %v", err)
		}
	}
	if err := merger.Error(); err != nil {
		return nil, fmt.Errorf("merge error: %v", err)
	}
	if cd == nil {
		return nil, fmt.Errorf("merge never announced its column layout")
	}
	removedCols := map[int]struct{}{}
	for _, layer := range cd.Removed {
		for col := range layer {
			removedCols[int(col)] = struct{}{}
		}
	}
	res.Columns = merger.Columns(removedCols)
	res.PK = merger.PK()
	ctx, cancel := context.WithCancel(context.Background())
	defer cancel()
	switch mode {
	case "rows":
		ch, err := merger.SortedRows(ctx, removedCols)
		if err != nil {
			return nil, fmt.Errorf("SortedRows: %v", err)
		}
		for blk := range ch {
			for _, r := range blk.Rows {
				cp := make([]string, len(r))
				copy(cp, r)
				res.Rows = append(res.Rows, cp)
			}
		}
		if err := merger.Error(); err != nil {
			return nil, fmt.Errorf("SortedRows error: %v", err)
		}
	case "blocks":
		pk, err := slice.KeyIndices(res.Columns, res.PK)
		if err != nil {
			return nil, fmt.Errorf("key columns %q not all in result columns %q: %v", res.PK, res.Columns, err)
		}
		blocks, err := merger.SortedBlocks(ctx, removedCols)
		if err != nil {
			return nil, fmt.Errorf("SortedBlocks: %v", err)
		}
		s, err := sorter.NewSorter()
		if err != nil {
			return nil, err
		}
		sum, err := ingest.IngestTableFromBlocks(db, s, res.Columns, pk, blocks, logr.Discard(), ingest.WithNumWorkers(1))
		if err != nil {
			return nil, fmt.Errorf("IngestTableFromBlocks: %v", err)
		}
		if err := merger.Error(); err != nil {
			return nil, fmt.Errorf("SortedBlocks error: %v", err)
		}
		res.TableSum = sum
	}
	merger.Close()
	return res, nil
}
