// Package repocheck holds the repository-level invariants shared by the crash (C13) and sync
// (C09/C10) checks.
package repocheck

import (
	"fmt"
	"sort"
	"strings"

	"github.com/wrgl/wrgl/pkg/objects"
	"github.com/wrgl/wrgl/pkg/ref"

	"verifharness/internal/tblcheck"
)

// Consistent checks: every ref resolves to an existing, decodable commit; every stored commit has
// all its parents; every table the repository reports as present is fully usable.
func Consistent(db objects.Store, rs ref.Store) error {
	refs, err := ref.ListAllRefs(rs)
	if err != nil {
		return fmt.Errorf("ListAllRefs: %v", err)
	}
	for name, sum := range refs {
		if _, err := objects.GetCommit(db, sum); err != nil {
			return fmt.Errorf("ref %q points at %x which is not a readable commit: %v", name, sum, err)
		}
	}
	coms, err := objects.GetAllCommitKeys(db)
	if err != nil {
		return err
	}
	for _, s := range coms {
		c, err := objects.GetCommit(db, s)
		if err != nil {
			return fmt.Errorf("stored commit %x is unreadable: %v", s, err)
		}
		for _, p := range c.Parents {
			if !objects.CommitExist(db, p) {
				return fmt.Errorf("stored commit %x lacks its parent %x", s, p)
			}
		}
	}
	tbls, err := objects.GetAllTableKeys(db)
	if err != nil {
		return err
	}
	for _, s := range tbls {
		if _, err := tblcheck.Validate(db, s); err != nil {
			return fmt.Errorf("table %x is reported present but is not usable: %v", s, err)
		}
	}
	return nil
}

// HeadsHaveTables: branches point at commits whose table exists.
func HeadsHaveTables(db objects.Store, rs ref.Store) error {
	heads, err := ref.ListHeads(rs)
	if err != nil {
		return err
	}
	for name, sum := range heads {
		c, err := objects.GetCommit(db, sum)
		if err != nil {
			return fmt.Errorf("branch %q: %v", name, err)
		}
		if !objects.TableExist(db, c.Table) {
			return fmt.Errorf("branch %q points at commit %x whose table %x is missing", name, sum, c.Table)
		}
	}
	return nil
}

// Signature renders, per ref, the history shape with table identifiers (commit sums and
// timestamps are ignored): two repositories with equal signatures hold the same tables and the same
// parent structure behind the same ref names.
func Signature(db objects.Store, rs ref.Store) (string, error) {
	refs, err := ref.ListAllRefs(rs)
	if err != nil {
		return "", err
	}
	memo := map[string]string{}
	var sig func(sum []byte, depth int) (string, error)
	sig = func(sum []byte, depth int) (string, error) {
		if s, ok := memo[string(sum)]; ok {
			return s, nil
		}
		if depth > 200 {
			return "...", nil
		}
		c, err := objects.GetCommit(db, sum)
		if err != nil {
			return "", err
		}
		parts := []string{}
		for _, p := range c.Parents {
			ps, err := sig(p, depth+1)
			if err != nil {
				return "", err
			}
			parts = append(parts, ps)
		}
		s := fmt.Sprintf("(%x:%s)", c.Table, strings.Join(parts, ","))
		memo[string(sum)] = s
		return s, nil
	}
	names := []string{}
	for n := range refs {
		names = append(names, n)
	}
	sort.Strings(names)
	var b strings.Builder
	for _, n := range names {
		s, err := sig(refs[n], 0)
		if err != nil {
			return "", fmt.Errorf("ref %q: %v", n, err)
		}
		fmt.Fprintf(&b, "%s=%s\n", n, s)
	}
	return b.String(), nil
}
