package stores

import (
	"context"
	"database/sql"
	"database/sql/driver"
	"errors"
	"fmt"
	"strings"
	"sync"
	"sync/atomic"
	"time"

	sqlite3 "github.com/mattn/go-sqlite3"
	"github.com/wrgl/wrgl/pkg/ref"
	refsql "github.com/wrgl/wrgl/pkg/ref/sql"
)

// SQLFaults lets a test see and fail the individual row reads (kind "row": every driver.Rows.Next
// of any query, so a listing can fail after some of its rows were delivered) and the individual write statements (INSERT / UPDATE / DELETE /
// REPLACE, also when issued through Query, e.g. DELETE ... RETURNING) and the COMMITs that wrgl's
// SQL ref store sends to sqlite - a finer grain than the ref.Store methods: a fault can land
// between two statements of one method. Gate is called before each of them; a non-nil result is
// returned to the store instead of executing the statement (a failed COMMIT rolls back).
type SQLFaults struct {
	mu   sync.Mutex
	Gate func(kind, query string) error
}

func (f *SQLFaults) gate(kind, query string) error {
	f.mu.Lock()
	g := f.Gate
	f.mu.Unlock()
	if g == nil {
		return nil
	}
	return g(kind, query)
}

// SetGate installs (or clears) the gate.
func (f *SQLFaults) SetGate(g func(kind, query string) error) {
	f.mu.Lock()
	f.Gate = g
	f.mu.Unlock()
}

func isWrite(q string) bool {
	q = strings.ToUpper(strings.TrimSpace(q))
	for _, p := range []string{"INSERT", "UPDATE", "DELETE", "REPLACE"} {
		if strings.HasPrefix(q, p) {
			return true
		}
	}
	return false
}

// one registered driver; the SQLFaults of a connection is found by its data source name
type fdriver struct {
	base driver.Driver
}

var faultsByDSN sync.Map

func (d *fdriver) Open(name string) (driver.Conn, error) {
	c, err := d.base.Open(name)
	if err != nil {
		return nil, err
	}
	f, _ := faultsByDSN.Load(name)
	if f == nil {
		return nil, fmt.Errorf("HARNESS: no SQLFaults registered for %q", name)
	}
	return &fconn{Conn: c, f: f.(*SQLFaults)}, nil
}

type fconn struct {
	driver.Conn
	f *SQLFaults
}

func (c *fconn) ExecContext(ctx context.Context, query string, args []driver.NamedValue) (driver.Result, error) {
	if isWrite(query) {
		if err := c.f.gate("exec", query); err != nil {
			return nil, err
		}
	}
	return c.Conn.(driver.ExecerContext).ExecContext(ctx, query, args)
}

func (c *fconn) QueryContext(ctx context.Context, query string, args []driver.NamedValue) (driver.Rows, error) {
	if isWrite(query) {
		if err := c.f.gate("query", query); err != nil {
			return nil, err
		}
	}
	rows, err := c.Conn.(driver.QueryerContext).QueryContext(ctx, query, args)
	if err != nil {
		return nil, err
	}
	return &frows{Rows: rows, f: c.f, query: query}, nil
}

// frows fails row reads through the gate.
type frows struct {
	driver.Rows
	f     *SQLFaults
	query string
}

func (r *frows) Next(dest []driver.Value) error {
	if err := r.f.gate("row", r.query); err != nil {
		return err
	}
	return r.Rows.Next(dest)
}

func (c *fconn) PrepareContext(ctx context.Context, query string) (driver.Stmt, error) {
	s, err := c.Conn.(driver.ConnPrepareContext).PrepareContext(ctx, query)
	if err != nil {
		return nil, err
	}
	return &fstmt{Stmt: s, f: c.f, query: query}, nil
}

func (c *fconn) Prepare(query string) (driver.Stmt, error) {
	return c.PrepareContext(context.Background(), query)
}

func (c *fconn) BeginTx(ctx context.Context, opts driver.TxOptions) (driver.Tx, error) {
	tx, err := c.Conn.(driver.ConnBeginTx).BeginTx(ctx, opts)
	if err != nil {
		return nil, err
	}
	return &ftx{Tx: tx, f: c.f}, nil
}

func (c *fconn) Begin() (driver.Tx, error) {
	return c.BeginTx(context.Background(), driver.TxOptions{})
}

func (c *fconn) Ping(ctx context.Context) error {
	if p, ok := c.Conn.(driver.Pinger); ok {
		return p.Ping(ctx)
	}
	return nil
}

func (c *fconn) ResetSession(ctx context.Context) error {
	if r, ok := c.Conn.(driver.SessionResetter); ok {
		return r.ResetSession(ctx)
	}
	return nil
}

type fstmt struct {
	driver.Stmt
	f     *SQLFaults
	query string
}

func (s *fstmt) ExecContext(ctx context.Context, args []driver.NamedValue) (driver.Result, error) {
	if isWrite(s.query) {
		if err := s.f.gate("exec", s.query); err != nil {
			return nil, err
		}
	}
	return s.Stmt.(driver.StmtExecContext).ExecContext(ctx, args)
}

func (s *fstmt) QueryContext(ctx context.Context, args []driver.NamedValue) (driver.Rows, error) {
	if isWrite(s.query) {
		if err := s.f.gate("query", s.query); err != nil {
			return nil, err
		}
	}
	rows, err := s.Stmt.(driver.StmtQueryContext).QueryContext(ctx, args)
	if err != nil {
		return nil, err
	}
	return &frows{Rows: rows, f: s.f, query: s.query}, nil
}

type ftx struct {
	driver.Tx
	f *SQLFaults
}

func (t *ftx) Commit() error {
	if err := t.f.gate("commit", "COMMIT"); err != nil {
		t.Tx.Rollback()
		return err
	}
	return t.Tx.Commit()
}

var faultyDrivers int64
var registerOnce sync.Once

const faultyDriverName = "sqlite3-verif-faulty"

// NewFaultyRefStore is NewRefStore over a sqlite connection whose write statements and commits
// pass through the returned SQLFaults.
func NewFaultyRefStore() (ref.Store, *SQLFaults, func(), error) {
	f := &SQLFaults{}
	n := atomic.AddInt64(&faultyDrivers, 1)
	registerOnce.Do(func() { sql.Register(faultyDriverName, &fdriver{base: &sqlite3.SQLiteDriver{}}) })
	dsn := fmt.Sprintf("file:veriff%d_%d.db?cache=shared&mode=memory", time.Now().UnixNano(), n)
	faultsByDSN.Store(dsn, f)
	db, err := sql.Open(faultyDriverName, dsn)
	if err != nil {
		faultsByDSN.Delete(dsn)
		return nil, nil, nil, err
	}
	closeFn := func() { db.Close(); faultsByDSN.Delete(dsn) }
	for _, stmt := range refsql.CreateTableStmts {
		if _, err := db.Exec(stmt); err != nil {
			closeFn()
			return nil, nil, nil, err
		}
	}
	return refsql.NewStore(db), f, closeFn, nil
}

// ErrSQLInjected is a convenience error for gates.
var ErrSQLInjected = errors.New("injected sqlite failure")
