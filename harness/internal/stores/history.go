package stores

import (
	"fmt"
	"time"

	"github.com/wrgl/wrgl/pkg/objects"

	"verifharness/internal/gen"
)

// BuildHistory saves one commit per node (parents first) and returns their sums. tables[i] is the
// table sum used by nodes with Table == i.
// seconds east of UTC: UTC, -03:30, +05:30, -09:30, +14:00, -00:30
var historyZones = []int{0, -12600, 19800, -34200, 50400, -1800}

func BuildHistory(db objects.Store, d gen.DAG, tables [][]byte) ([][]byte, error) {
	sums := make([][]byte, len(d.Nodes))
	for i, n := range d.Nodes {
		var parents [][]byte
		for _, p := range n.Parents {
			parents = append(parents, sums[p])
		}
		var tbl []byte
		if len(tables) > 0 {
			tbl = tables[n.Table%len(tables)]
		} else {
			tbl = make([]byte, 16)
			tbl[0] = byte(n.Table + 1)
		}
		// authors sit in various time zones (the instant is what the DAG says)
		zone := time.FixedZone("", historyZones[i%len(historyZones)])
		s, err := SaveCommit(db, tbl, parents, time.Unix(n.Time, 0).In(zone), fmt.Sprintf("c%d", i))
		if err != nil {
			return nil, err
		}
		sums[i] = s
	}
	return sums, nil
}

// GraphOf returns the parent lists.
func GraphOf(d gen.DAG) [][]int {
	out := make([][]int, len(d.Nodes))
	for i, n := range d.Nodes {
		out[i] = n.Parents
	}
	return out
}
