package stores

import (
	"bytes"
	"database/sql"
	"fmt"
	"sync/atomic"
	"time"

	_ "github.com/mattn/go-sqlite3"
	"github.com/wrgl/wrgl/pkg/objects"
	"github.com/wrgl/wrgl/pkg/ref"
	refsql "github.com/wrgl/wrgl/pkg/ref/sql"
)

var refCounter int64

// NewRefStore returns wrgl's SQL ref store over a fresh in-memory sqlite database.
func NewRefStore() (ref.Store, *sql.DB, func(), error) {
	n := atomic.AddInt64(&refCounter, 1)
	db, err := sql.Open("sqlite3", fmt.Sprintf("file:verif%d_%d.db?cache=shared&mode=memory", time.Now().UnixNano(), n))
	if err != nil {
		return nil, nil, nil, err
	}
	for _, stmt := range refsql.CreateTableStmts {
		if _, err := db.Exec(stmt); err != nil {
			db.Close()
			return nil, nil, nil, err
		}
	}
	return refsql.NewStore(db), db, func() { db.Close() }, nil
}

// SaveCommit writes a commit object and returns its sum.
func SaveCommit(db objects.Store, table []byte, parents [][]byte, t time.Time, msg string) ([]byte, error) {
	c := &objects.Commit{Table: table, AuthorName: "Verif", AuthorEmail: "verif@example.com", Time: t, Message: msg, Parents: parents}
	var buf bytes.Buffer
	if _, err := c.WriteTo(&buf); err != nil {
		return nil, err
	}
	return objects.SaveCommit(db, buf.Bytes())
}
