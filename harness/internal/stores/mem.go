// Package stores holds the harness's own objects.Store implementations: a thread-safe in-memory
// store (wrgl's objmock.Store is a bare map and must not be used by several workers) with
// optional write interception for counting / fault injection.
package stores

import (
	"sort"
	"strings"
	"sync"

	"github.com/wrgl/wrgl/pkg/objects"
)

// Mem is a mutex-protected map store. FilterKey returns keys in sorted order like badger does.
type Mem struct {
	mu sync.RWMutex
	m  map[string][]byte
	// BeforeWrite, when set, is called (outside the lock) before every Set/Delete/Clear with the
	// operation name and key; a non-nil error is returned to the caller and the write is skipped.
	BeforeWrite func(op string, key []byte) error
	// BeforeRead, when set, is called before every Get; a non-nil error is returned to the caller.
	BeforeRead func(key []byte) error
	// Gets counts Get+Exist calls (deterministic cost measure).
	Gets int64
	// Sets counts successful Set calls.
	Sets int64
}

func NewMem() *Mem { return &Mem{m: map[string][]byte{}} }

func (s *Mem) Get(key []byte) ([]byte, error) {
	if s.BeforeRead != nil {
		if err := s.BeforeRead(key); err != nil {
			return nil, err
		}
	}
	s.mu.Lock()
	s.Gets++
	v, ok := s.m[string(key)]
	s.mu.Unlock()
	if ok {
		b := make([]byte, len(v))
		copy(b, v)
		return b, nil
	}
	return nil, objects.ErrKeyNotFound
}

func (s *Mem) Set(key, val []byte) error {
	if s.BeforeWrite != nil {
		if err := s.BeforeWrite("set", key); err != nil {
			return err
		}
	}
	b := make([]byte, len(val))
	copy(b, val)
	s.mu.Lock()
	s.m[string(key)] = b
	s.Sets++
	s.mu.Unlock()
	return nil
}

func (s *Mem) Delete(key []byte) error {
	if s.BeforeWrite != nil {
		if err := s.BeforeWrite("delete", key); err != nil {
			return err
		}
	}
	s.mu.Lock()
	delete(s.m, string(key))
	s.mu.Unlock()
	return nil
}

func (s *Mem) Exist(key []byte) bool {
	s.mu.Lock()
	s.Gets++
	_, ok := s.m[string(key)]
	s.mu.Unlock()
	return ok
}

func (s *Mem) Filter(prefix []byte) (map[string][]byte, error) {
	s.mu.RLock()
	defer s.mu.RUnlock()
	m := map[string][]byte{}
	for k, v := range s.m {
		if strings.HasPrefix(k, string(prefix)) {
			b := make([]byte, len(v))
			copy(b, v)
			m[k] = b
		}
	}
	return m, nil
}

func (s *Mem) FilterKey(prefix []byte) ([][]byte, error) {
	s.mu.RLock()
	defer s.mu.RUnlock()
	keys := [][]byte{}
	for k := range s.m {
		if strings.HasPrefix(k, string(prefix)) {
			keys = append(keys, []byte(k))
		}
	}
	sort.Slice(keys, func(i, j int) bool { return string(keys[i]) < string(keys[j]) })
	return keys, nil
}

func (s *Mem) Clear(prefix []byte) error {
	if s.BeforeWrite != nil {
		if err := s.BeforeWrite("clear", prefix); err != nil {
			return err
		}
	}
	s.mu.Lock()
	for k := range s.m {
		if strings.HasPrefix(k, string(prefix)) {
			delete(s.m, k)
		}
	}
	s.mu.Unlock()
	return nil
}

func (s *Mem) Close() error { return nil }

// Keys returns all keys, sorted.
func (s *Mem) Keys() []string {
	s.mu.RLock()
	defer s.mu.RUnlock()
	keys := make([]string, 0, len(s.m))
	for k := range s.m {
		keys = append(keys, k)
	}
	sort.Strings(keys)
	return keys
}

// Snapshot returns a deep copy of the content.
func (s *Mem) Snapshot() map[string][]byte {
	s.mu.RLock()
	defer s.mu.RUnlock()
	m := make(map[string][]byte, len(s.m))
	for k, v := range s.m {
		b := make([]byte, len(v))
		copy(b, v)
		m[k] = b
	}
	return m
}

// Clone returns an independent store with the same content (no hooks).
func (s *Mem) Clone() *Mem {
	return &Mem{m: s.Snapshot()}
}

// Raw returns the stored bytes without copying semantics guarantees (read-only use).
func (s *Mem) Raw(key string) ([]byte, bool) {
	s.mu.RLock()
	defer s.mu.RUnlock()
	v, ok := s.m[key]
	return v, ok
}

// Len is the number of keys.
func (s *Mem) Len() int {
	s.mu.RLock()
	defer s.mu.RUnlock()
	return len(s.m)
}
