package stores

import (
	"time"

	"github.com/google/uuid"
	"github.com/wrgl/wrgl/pkg/ref"
)

// FaultyRef wraps a ref.Store; Before is consulted before every mutating call and may veto it.
type FaultyRef struct {
	ref.Store
	Before func(op, key string) error
}

func (f *FaultyRef) check(op, key string) error {
	if f.Before != nil {
		return f.Before(op, key)
	}
	return nil
}

func (f *FaultyRef) SetWithLog(key string, val []byte, log *ref.Reflog) error {
	if err := f.check("setwithlog", key); err != nil {
		return err
	}
	return f.Store.SetWithLog(key, val, log)
}

func (f *FaultyRef) Set(key string, val []byte) error {
	if err := f.check("set", key); err != nil {
		return err
	}
	return f.Store.Set(key, val)
}

func (f *FaultyRef) Delete(key string) error {
	if err := f.check("delete", key); err != nil {
		return err
	}
	return f.Store.Delete(key)
}

func (f *FaultyRef) Rename(a, b string) error {
	if err := f.check("rename", a); err != nil {
		return err
	}
	return f.Store.Rename(a, b)
}

func (f *FaultyRef) Copy(a, b string) error {
	if err := f.check("copy", a); err != nil {
		return err
	}
	return f.Store.Copy(a, b)
}

func (f *FaultyRef) NewTransaction(tx *ref.Transaction) (*uuid.UUID, error) {
	if err := f.check("newtx", ""); err != nil {
		return nil, err
	}
	return f.Store.NewTransaction(tx)
}

func (f *FaultyRef) UpdateTransaction(tx *ref.Transaction) error {
	if err := f.check("updatetx", ""); err != nil {
		return err
	}
	return f.Store.UpdateTransaction(tx)
}

func (f *FaultyRef) DeleteTransaction(id uuid.UUID) error {
	if err := f.check("deletetx", ""); err != nil {
		return err
	}
	return f.Store.DeleteTransaction(id)
}

func (f *FaultyRef) GCTransactions(ttl time.Duration) ([]uuid.UUID, error) {
	if err := f.check("gctx", ""); err != nil {
		return nil, err
	}
	return f.Store.GCTransactions(ttl)
}
