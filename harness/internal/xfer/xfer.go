// Package xfer builds small repositories with block-sharing tables and pushes commit sets through
// wrgl's ObjectSender -> packfile -> ObjectReceiver.
package xfer

import (
	"bytes"
	"fmt"
	"io"

	"github.com/go-logr/logr"
	apiutils "github.com/wrgl/wrgl/pkg/api/utils"
	"github.com/wrgl/wrgl/pkg/encoding/packfile"
	"github.com/wrgl/wrgl/pkg/objects"

	"verifharness/internal/gen"
	"verifharness/internal/ingestx"
)

// PoolSize is the number of tables Pool builds.
const PoolSize = 8

// Pool ingests tables that share blocks pairwise: five 300-row (2-block) variants differing in a
// row of the second block, of the first block, in both, or everywhere (that one with an empty last cell at the end of each block), plus a 255-row and a 510-row
// table (row counts that are exact multiples of the block size) and a table whose key is all of
// its columns in another order.
func Pool(db objects.Store) ([][]byte, error) {
	var sums [][]byte
	for v := 0; v < PoolSize; v++ {
		t := gen.Table{Cols: []string{"id", "v"}, PK: []int{0}}
		n := 300
		if v == 7 {
			// the key names every column, in another order than the columns
			t.PK = []int{1, 0}
		}
		if v == 5 {
			n = 255
		} else if v == 6 {
			n = 510
		}
		for i := 0; i < n; i++ {
			val := "x"
			if (v == 1 || v == 3) && i == 290 {
				val = "second-block-changed"
			}
			if (v == 2 || v == 3) && i == 10 {
				val = "first-block-changed"
			}
			if v == 4 {
				val = "all-different"
				// the last cell of each block is empty: the block's bytes end with a zero length
				if i == 254 || i == 299 {
					val = ""
				}
			}
			t.Rows = append(t.Rows, []gen.Cell{gen.Cell(fmt.Sprintf("k%05d", i)), gen.Cell(val)})
		}
		s, err := ingestx.Simple(db, t)
		if err != nil {
			return nil, err
		}
		sums = append(sums, s)
	}
	return sums, nil
}

// Result of a transfer.
type Result struct {
	Packfiles    int
	PackSizes    []int
	LastObjSizes []int // size of the last object written into each packfile (header + body)
	Objects      int
	Received     [][]byte
	Done         bool
}

// Send pushes toSend through packfiles of at most maxSize bytes into dst.
func Send(src, dst objects.Store, toSend []*objects.Commit, tables map[string]struct{}, commons [][]byte, maxSize uint64, expected [][]byte) (*Result, error) {
	sender, err := apiutils.NewObjectSender(src, toSend, tables, commons, maxSize)
	if err != nil {
		return nil, fmt.Errorf("NewObjectSender: %v", err)
	}
	recv := apiutils.NewObjectReceiver(dst, expected, logr.Discard())
	res := &Result{}
	for i := 0; i < 100000; i++ {
		var buf bytes.Buffer
		done, info, err := sender.WriteObjects(&buf, nil)
		if err != nil {
			return res, fmt.Errorf("WriteObjects (packfile %d): %v", i, err)
		}
		res.Packfiles++
		res.PackSizes = append(res.PackSizes, buf.Len())
		res.Objects += len(info.Objects)
		pr, err := packfile.NewPackfileReader(io.NopCloser(bytes.NewReader(buf.Bytes())))
		if err != nil {
			return res, fmt.Errorf("NewPackfileReader (packfile %d): %v", i, err)
		}
		rdone, err := recv.Receive(pr, nil)
		if err != nil {
			return res, fmt.Errorf("Receive (packfile %d): %v", i, err)
		}
		res.Done = rdone
		if done {
			break
		}
	}
	res.Received = recv.ReceivedCommits
	return res, nil
}
