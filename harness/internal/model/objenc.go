package model

import (
	"encoding/binary"
	"fmt"
)

// The harness's own writers of wrgl's labelled-field object formats (from the format comments and
// fixtures): "label SP content LF" per field.

func field(label string, content []byte) []byte {
	b := append([]byte(label), ' ')
	b = append(b, content...)
	return append(b, '\n')
}

func str16(s string) []byte {
	b := make([]byte, 2, 2+len(s))
	binary.BigEndian.PutUint16(b, uint16(len(s)))
	return append(b, s...)
}

// EncodeTime: 10-digit unix seconds, space, +-hhmm; sixteen zero bytes for the zero time.
func EncodeTime(zero bool, sec int64, zoneMinutes int) []byte {
	if zero {
		return make([]byte, 16)
	}
	sign := '+'
	z := zoneMinutes
	if z < 0 {
		sign = '-'
		z = -z
	}
	return []byte(fmt.Sprintf("%010d %c%02d%02d", sec, sign, z/60, z%60))
}

// EncodeCommit is the reference commit encoding.
func EncodeCommit(table []byte, name, email string, timeBytes []byte, message string, parents [][]byte) []byte {
	var b []byte
	b = append(b, field("table", table)...)
	b = append(b, field("authorName", str16(name))...)
	b = append(b, field("authorEmail", str16(email))...)
	b = append(b, field("time", timeBytes)...)
	b = append(b, field("message", str16(message))...)
	for _, p := range parents {
		b = append(b, field("parent", p)...)
	}
	return b
}

// EncodeUintList: 32-bit count then 32-bit values, big endian.
func EncodeUintList(sl []uint32) []byte {
	b := make([]byte, 4+4*len(sl))
	binary.BigEndian.PutUint32(b, uint32(len(sl)))
	for i, u := range sl {
		binary.BigEndian.PutUint32(b[4+4*i:], u)
	}
	return b
}

// EncodeTable is the reference table encoding.
func EncodeTable(columns []string, pk []uint32, rows uint32, blocks, blockIndices [][]byte) []byte {
	var b []byte
	b = append(b, field("columns", EncodeStrList(columns))...)
	b = append(b, field("pk", EncodeUintList(pk))...)
	r := make([]byte, 4)
	binary.BigEndian.PutUint32(r, rows)
	b = append(b, field("rows", r)...)
	for _, s := range blocks {
		b = append(b, s...)
	}
	for _, s := range blockIndices {
		b = append(b, s...)
	}
	return b
}

// EncodeObjHeader is the reference packfile object header: first byte 1|type(3 bits)|low 4 bits of
// the length, then 7 bits per byte, least significant first, high bit = "more".
func EncodeObjHeader(objType int, u uint64) []byte {
	b := []byte{byte(objType)<<4 | byte(u&15)}
	u >>= 4
	// at least two bytes are always written
	for {
		b[len(b)-1] |= 128
		b = append(b, byte(u&127))
		u >>= 7
		if u == 0 {
			break
		}
	}
	return b
}
