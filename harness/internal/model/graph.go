package model

// Graph is the adjacency (parent) list of a commit DAG; reachability is plain DFS.
type Graph struct {
	Parents [][]int
}

// Anc returns the set of ancestors-or-self of the start nodes.
func (g Graph) Anc(starts ...int) map[int]bool {
	seen := map[int]bool{}
	stack := append([]int{}, starts...)
	for len(stack) > 0 {
		n := stack[len(stack)-1]
		stack = stack[:len(stack)-1]
		if seen[n] {
			continue
		}
		seen[n] = true
		stack = append(stack, g.Parents[n]...)
	}
	return seen
}

// IsAnc reports whether a is an ancestor-or-self of b.
func (g Graph) IsAnc(a, b int) bool { return g.Anc(b)[a] }

// Paths counts the distinct paths from any of the starts down to roots, capped at limit (the
// revisiting cost of a walk without a visited set).
func (g Graph) Paths(limit int, starts ...int) int {
	memo := map[int]int{}
	var f func(n int) int
	f = func(n int) int {
		if v, ok := memo[n]; ok {
			return v
		}
		if len(g.Parents[n]) == 0 {
			memo[n] = 1
			return 1
		}
		s := 0
		for _, p := range g.Parents[n] {
			s += f(p)
			if s > limit {
				s = limit
			}
		}
		memo[n] = s
		return s
	}
	total := 0
	for _, s := range starts {
		total += f(s)
		if total > limit {
			return limit
		}
	}
	return total
}
