// Package model holds the small, obviously-correct reference models the oracles compare wrgl with.
package model

import (
	"encoding/binary"
	"sort"
	"strings"

	"github.com/pckhoi/meow"
)

// KeyOf returns the key tuple of a row: the pk columns in order, or the whole row when there is
// no primary key.
func KeyOf(row []string, pk []int) []string {
	if len(pk) == 0 {
		out := make([]string, len(row))
		copy(out, row)
		return out
	}
	out := make([]string, len(pk))
	for i, k := range pk {
		out[i] = row[k]
	}
	return out
}

// CmpTuple compares key tuples component by component in byte order.
func CmpTuple(a, b []string) int {
	for i := 0; i < len(a) && i < len(b); i++ {
		if c := strings.Compare(a[i], b[i]); c != 0 {
			return c
		}
	}
	return len(a) - len(b)
}

// TupleID is an injective string form of a tuple (length-prefixed).
func TupleID(t []string) string {
	var b strings.Builder
	var l [4]byte
	for _, s := range t {
		binary.BigEndian.PutUint32(l[:], uint32(len(s)))
		b.Write(l[:])
		b.WriteString(s)
	}
	return b.String()
}

// Group is the set of input rows carrying one key.
type Group struct {
	Key  []string
	Rows [][]string
}

// Canon groups rows by key and sorts the groups by key tuple: the expected table is one
// representative of each group, in this order.
func Canon(rows [][]string, pk []int) []Group {
	byID := map[string]*Group{}
	var order []*Group
	for _, r := range rows {
		k := KeyOf(r, pk)
		id := TupleID(k)
		g := byID[id]
		if g == nil {
			g = &Group{Key: k}
			byID[id] = g
			order = append(order, g)
		}
		g.Rows = append(g.Rows, r)
	}
	sort.SliceStable(order, func(i, j int) bool { return CmpTuple(order[i].Key, order[j].Key) < 0 })
	out := make([]Group, len(order))
	for i, g := range order {
		out[i] = *g
	}
	return out
}

// RowsEqual compares two rows cell for cell.
func RowsEqual(a, b []string) bool {
	if len(a) != len(b) {
		return false
	}
	for i := range a {
		if a[i] != b[i] {
			return false
		}
	}
	return true
}

// EncodeStrList is the harness's own writer of the string-list format: 32-bit big-endian count,
// then per string a 16-bit big-endian length and the bytes.
func EncodeStrList(sl []string) []byte {
	n := 4
	for _, s := range sl {
		n += 2 + len(s)
	}
	b := make([]byte, 0, n)
	var c [4]byte
	binary.BigEndian.PutUint32(c[:], uint32(len(sl)))
	b = append(b, c[:]...)
	for _, s := range sl {
		var l [2]byte
		binary.BigEndian.PutUint16(l[:], uint16(len(s)))
		b = append(b, l[:]...)
		b = append(b, s...)
	}
	return b
}

// EncodeBlock is the reference block writer: 32-bit row count then the rows as string lists.
func EncodeBlock(rows [][]string) []byte {
	var c [4]byte
	binary.BigEndian.PutUint32(c[:], uint32(len(rows)))
	b := append([]byte{}, c[:]...)
	for _, r := range rows {
		b = append(b, EncodeStrList(r)...)
	}
	return b
}

// Sum is meow(0, b).
func Sum(b []byte) []byte {
	a := meow.Checksum(0, b)
	return a[:]
}

// RowSum is the hash of a row's reference encoding.
func RowSum(row []string) []byte { return Sum(EncodeStrList(row)) }

// KeySum is the hash of the key tuple's reference encoding (the row hash when there is no key).
func KeySum(row []string, pk []int) []byte {
	if len(pk) == 0 {
		return RowSum(row)
	}
	return Sum(EncodeStrList(KeyOf(row, pk)))
}

// DecodeStrList is the reference reader of one string list at the start of b; it returns the
// strings and the number of bytes consumed, or ok=false when b is not a complete string list.
func DecodeStrList(b []byte) (sl []string, n int, ok bool) {
	if len(b) < 4 {
		return nil, 0, false
	}
	c := int(binary.BigEndian.Uint32(b))
	n = 4
	sl = make([]string, 0, c)
	for i := 0; i < c; i++ {
		if len(b) < n+2 {
			return nil, 0, false
		}
		l := int(binary.BigEndian.Uint16(b[n:]))
		n += 2
		if len(b) < n+l {
			return nil, 0, false
		}
		sl = append(sl, string(b[n:n+l]))
		n += l
	}
	return sl, n, true
}

// DecodeBlock is the reference block reader.
func DecodeBlock(b []byte) (rows [][]string, ok bool) {
	if len(b) < 4 {
		return nil, false
	}
	c := int(binary.BigEndian.Uint32(b))
	off := 4
	for i := 0; i < c; i++ {
		sl, n, ok := DecodeStrList(b[off:])
		if !ok {
			return nil, false
		}
		rows = append(rows, sl)
		off += n
	}
	return rows, off == len(b)
}

// NewHash returns a meow digest (what wrgl's indexers expect).
func NewHash() *meow.Digest { return meow.New(0) }
