// Package cli runs wrgl's command line in-process (wrgl.RootCmd()) against scratch repositories.
// The CLI depends on process-global state (viper "wrgl_dir", cwd, HOME), so callers run cases
// strictly sequentially.
package cli

import (
	"bytes"
	"fmt"
	"os"
	"path/filepath"

	"github.com/spf13/viper"
	wrgl "github.com/wrgl/wrgl/cmd/wrgl"
	"github.com/wrgl/wrgl/pkg/local"
	"github.com/wrgl/wrgl/pkg/objects"
	"github.com/wrgl/wrgl/pkg/ref"

	"verifharness/internal/evid"
)

// Repo is a scratch repository directory.
type Repo struct {
	Root    string // working directory (CSV files live here)
	WrglDir string // Root/.wrgl
}

// NewRepo creates and initialises a repository under the private temp dir.
func NewRepo() (*Repo, error) {
	root, err := os.MkdirTemp(evid.TempDir(), "repo-*")
	if err != nil {
		return nil, err
	}
	r := &Repo{Root: root, WrglDir: filepath.Join(root, ".wrgl")}
	rd, err := local.NewRepoDir(r.WrglDir, "")
	if err != nil {
		return nil, err
	}
	if err := rd.Init(); err != nil {
		return nil, err
	}
	rd.Close()
	if _, err := r.Run("config", "set", "user.email", "verif@example.com"); err != nil {
		return nil, fmt.Errorf("config set: %v", err)
	}
	if _, err := r.Run("config", "set", "user.name", "Verif Harness"); err != nil {
		return nil, fmt.Errorf("config set: %v", err)
	}
	return r, nil
}

// Run executes one wrgl command in-process and returns what it printed.
func (r *Repo) Run(args ...string) (string, error) {
	viper.Set("wrgl_dir", r.WrglDir)
	wd, _ := os.Getwd()
	if err := os.Chdir(r.Root); err == nil {
		defer os.Chdir(wd)
	}
	cmd := wrgl.RootCmd()
	var buf bytes.Buffer
	cmd.SetOut(&buf)
	cmd.SetErr(&buf)
	cmd.SetArgs(args)
	err := cmd.Execute()
	return buf.String(), err
}

// WriteFile writes a file into the working directory and returns its path.
func (r *Repo) WriteFile(name string, b []byte) (string, error) {
	p := filepath.Join(r.Root, name)
	return p, os.WriteFile(p, b, 0o644)
}

// Open opens the object and ref stores; call the returned function to close them.
func (r *Repo) Open() (objects.Store, ref.Store, func(), error) {
	rd, err := local.NewRepoDir(r.WrglDir, "")
	if err != nil {
		return nil, nil, nil, err
	}
	db, err := rd.OpenObjectsStore()
	if err != nil {
		rd.Close()
		return nil, nil, nil, err
	}
	rs := rd.OpenRefStore()
	return db, rs, func() { db.Close(); rd.Close() }, nil
}

// Remove deletes the repository directory.
func (r *Repo) Remove() { os.RemoveAll(r.Root) }
