package c14

import (
	"fmt"
	"os"
	"path/filepath"
	"strings"
	"testing"

	"github.com/google/uuid"
	"github.com/wrgl/wrgl/pkg/objects"
	"github.com/wrgl/wrgl/pkg/ref"
	"github.com/wrgl/wrgl/pkg/verifhook"

	"verifharness/internal/cli"
	"verifharness/internal/evid"
	"verifharness/internal/gen"
)

// CLI leg: the transaction is built and committed with the real commands (`wrgl transaction start`,
// `wrgl commit --txid`, `wrgl transaction commit`) on a badger + sqlite repository. For every
// storage write n of `wrgl transaction commit` (verif hook in the object store and the SQL ref
// store) the command is run from a pristine copy of the repository with write n failing (only
// that one, or that one and all later ones), then run again without faults: the second run must
// succeed (or report that the transaction is already committed) and every branch must then carry
// exactly its staged commit on top of its previous head, with one transaction log entry.
type CLICase struct {
	Branches []Branch `json:"branches"`
}

var subCLI = evid.Register("transaction-cli", runCLI)

func TestExhaustiveCLIFaults(t *testing.T) {
	for nb := 1; nb <= evid.Scale(3, 4); nb++ {
		for mask := 0; mask < 1<<uint(nb); mask++ {
			if evid.Tier() == "quick" && nb == 3 && mask%3 != 0 {
				continue
			}
			var bs []Branch
			for i := 0; i < nb; i++ {
				bs = append(bs, Branch{Name: branchNames[i], Existing: mask&(1<<uint(i)) != 0, ViaFile: (i+mask+nb)%2 == 0})
			}
			subCLI.Check(t, CLICase{Branches: bs})
		}
	}
}

func cliCSV(tag string) []byte {
	t := gen.Table{Cols: []string{"id", "v"}, PK: []int{0}}
	for i := 0; i < 5; i++ {
		t.Rows = append(t.Rows, []gen.Cell{gen.Cell(fmt.Sprintf("k%d", i)), gen.Cell(tag)})
	}
	return t.CSV(',')
}

func copyTree(src, dst string) error {
	return filepath.Walk(src, func(p string, info os.FileInfo, err error) error {
		if err != nil {
			return err
		}
		rel, _ := filepath.Rel(src, p)
		target := filepath.Join(dst, rel)
		if info.IsDir() {
			return os.MkdirAll(target, 0o755)
		}
		b, err := os.ReadFile(p)
		if err != nil {
			return err
		}
		return os.WriteFile(target, b, info.Mode())
	})
}

func runCLI(c CLICase) (o evid.Outcome, err error) {
	repo, err := cli.NewRepo()
	if err != nil {
		return o, fmt.Errorf("HARNESS: %v", err)
	}
	defer repo.Remove()
	defer verifhook.SetPlan(verifhook.Plan{})
	must := func(args ...string) (string, error) {
		out, err := repo.Run(args...)
		if err != nil {
			return out, fmt.Errorf("HARNESS: wrgl %s: %v (%s)", strings.Join(args, " "), err, out)
		}
		return out, nil
	}
	for _, b := range c.Branches {
		if b.Existing {
			fp, _ := repo.WriteFile("old-"+b.Name+".csv", cliCSV("old-"+b.Name))
			if _, err := must("commit", b.Name, fp, "old "+b.Name, "-p", "id"); err != nil {
				return o, err
			}
		}
	}
	out, err := must("transaction", "start")
	if err != nil {
		return o, err
	}
	id, perr := uuid.Parse(strings.TrimSpace(out))
	if perr != nil {
		return o, fmt.Errorf("HARNESS: transaction start printed %q", out)
	}
	for _, b := range c.Branches {
		fp, _ := repo.WriteFile("new-"+b.Name+".csv", cliCSV("new-"+b.Name))
		if b.ViaFile {
			if _, err := must("config", "set", "branch."+b.Name+".file", fp); err != nil {
				return o, err
			}
			if _, err := must("commit", b.Name, "staged "+b.Name, "-p", "id", "--txid", id.String()); err != nil {
				return o, err
			}
		} else if _, err := must("commit", b.Name, fp, "staged "+b.Name, "-p", "id", "--txid", id.String()); err != nil {
			return o, err
		}
	}
	// staging does not show: until the transaction is committed every branch is where it was
	{
		_, rs, closeFn, err := repo.Open()
		if err != nil {
			return o, fmt.Errorf("HARNESS: %v", err)
		}
		for _, b := range c.Branches {
			h, err := ref.GetHead(rs, b.Name)
			if !b.Existing && err == nil {
				closeFn()
				return o, fmt.Errorf("`wrgl commit %s ... --txid` (via branch.file: %v) created branch %q (at %x) before the transaction was committed", b.Name, b.ViaFile, b.Name, h)
			}
		}
		closeFn()
	}
	// what the transaction holds, read back from the repository
	w := &world{id: id, oldHead: map[string][]byte{}, staged: map[string][]byte{}, tables: map[string][]byte{}}
	{
		db, rs, closeFn, err := repo.Open()
		if err != nil {
			return o, fmt.Errorf("HARNESS: %v", err)
		}
		for _, b := range c.Branches {
			if h, err := ref.GetHead(rs, b.Name); err == nil {
				w.oldHead[b.Name] = h
			} else if b.Existing {
				closeFn()
				return o, fmt.Errorf("HARNESS: branch %s missing", b.Name)
			}
		}
		m, err := ref.ListTransactionRefs(rs, id)
		if err != nil || len(m) != len(c.Branches) {
			closeFn()
			return o, fmt.Errorf("HARNESS: %d staged refs for %d branches (%v)", len(m), len(c.Branches), err)
		}
		for name, sum := range m {
			com, err := objects.GetCommit(db, sum)
			if err != nil {
				closeFn()
				return o, fmt.Errorf("HARNESS: staged commit: %v", err)
			}
			w.staged[name] = sum
			w.tables[name] = com.Table
		}
		closeFn()
	}
	snap := repo.Root + ".snap"
	if err := copyTree(repo.WrglDir, snap); err != nil {
		return o, fmt.Errorf("HARNESS: %v", err)
	}
	defer os.RemoveAll(snap)
	restore := func() error {
		if err := os.RemoveAll(repo.WrglDir); err != nil {
			return err
		}
		return copyTree(snap, repo.WrglDir)
	}
	check := func(what string) error {
		db, rs, closeFn, err := repo.Open()
		if err != nil {
			return fmt.Errorf("%s: repository cannot be reopened: %v", what, err)
		}
		defer closeFn()
		w.db, w.rs = db, rs
		if err := w.committed(Case{Branches: c.Branches}); err != nil {
			return fmt.Errorf("%s: %v", what, err)
		}
		return nil
	}
	// uninterrupted run: counts the writes
	verifhook.SetPlan(verifhook.Plan{})
	if out, err := repo.Run("transaction", "commit", id.String()); err != nil {
		return o, fmt.Errorf("wrgl transaction commit: %v (%s)", err, out)
	}
	total, _ := verifhook.Writes()
	if err := check("uninterrupted `wrgl transaction commit`"); err != nil {
		return o, err
	}
	points := 0
	for n := 1; n <= total; n++ {
		for _, dead := range []bool{false, true} {
			if err := restore(); err != nil {
				return o, fmt.Errorf("HARNESS: %v", err)
			}
			what := fmt.Sprintf("`wrgl transaction commit` with storage write %d of %d failing (%s), then run again", n, total, map[bool]string{true: "and every later one", false: "only that one"}[dead])
			verifhook.SetPlan(verifhook.Plan{FailAt: n, Dead: dead})
			_, err1 := repo.Run("transaction", "commit", id.String())
			_, hit := verifhook.Writes()
			verifhook.SetPlan(verifhook.Plan{})
			if hit && err1 == nil && dead {
				return o, fmt.Errorf("`wrgl transaction commit`: every write from #%d on failed, yet the command reported success", n)
			}
			out2, err2 := repo.Run("transaction", "commit", id.String())
			if err2 != nil && !(err1 == nil && strings.Contains(err2.Error()+out2, "commit")) {
				return o, fmt.Errorf("%s: the second run fails: %v (%s)", what, err2, strings.TrimSpace(out2))
			}
			if err := check(what); err != nil {
				return o, err
			}
			points++
		}
	}
	o.NonTrivial = len(c.Branches) >= 2 && total >= 4
	o.Class("branches=%d", len(c.Branches))
	evid.Count("CLI fault points executed", points)
	return o, nil
}
