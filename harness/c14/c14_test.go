// C14 — a transaction's commits land on all of its branches or on none.
package c14

import (
	"bytes"
	"errors"
	"fmt"
	"io"
	"sort"
	"testing"
	"time"

	"github.com/google/uuid"
	"github.com/wrgl/wrgl/pkg/objects"
	"github.com/wrgl/wrgl/pkg/ref"
	"github.com/wrgl/wrgl/pkg/transaction"
	"pgregory.net/rapid"

	"verifharness/internal/evid"
	"verifharness/internal/model"
	"verifharness/internal/stores"
)

func TestMain(m *testing.M) { evid.Main("C14", m) }

type Branch struct {
	Name     string `json:"name"`
	Existing bool   `json:"existing"` // the branch already has a head before the transaction
	// ViaFile (CLI leg): the data is staged from the branch's configured file (`wrgl commit BRANCH
	// MESSAGE --txid`, branch.file set) instead of a CSV path on the command line
	ViaFile bool `json:"via_file,omitempty"`
}

type Case struct {
	Branches []Branch `json:"branches"`
	History  string   `json:"history"`             // commit | commit-fault | commit-twice | discard | discard-fault | discard-after-commit | commit-after-discard
	FaultAt  int      `json:"fault_at"`            // 1-based index of the failing store write (commit-fault / discard-fault)
	Dead     bool     `json:"dead"`                // true: the n-th and every later write fail (process death); false: only the n-th
	FaultAt2 int      `json:"fault_at2,omitempty"` // commit-fault: the re-run's n-th storage access fails (once); then a clean run
}

var sub = evid.Register("transaction", run)

var branchNames = []string{"main", "dev", "a_b", "release", "x"}

func TestPropTransaction(t *testing.T) {
	rapid.Check(t, func(t *rapid.T) {
		nb := rapid.IntRange(1, 4).Draw(t, "nbranches")
		names := rapid.Permutation(branchNames).Draw(t, "names")[:nb]
		c := Case{}
		for _, n := range names {
			c.Branches = append(c.Branches, Branch{Name: n, Existing: rapid.Bool().Draw(t, "existing")})
		}
		c.History = rapid.SampledFrom([]string{"commit-fault", "commit-fault", "commit-fault", "commit", "commit-twice", "discard", "discard-fault", "discard-after-commit", "commit-after-discard", "reapply"}).Draw(t, "history")
		nw, err := countWrites(c)
		if err != nil {
			t.Fatalf("HARNESS: %v", err)
		}
		c.FaultAt = rapid.IntRange(1, nw+1).Draw(t, "faultAt")
		c.Dead = rapid.Bool().Draw(t, "dead")
		if c.History == "commit-fault" && rapid.Bool().Draw(t, "second") {
			c.FaultAt2 = rapid.IntRange(1, nw+1).Draw(t, "faultAt2")
		}
		sub.Check(t, c)
	})
}

// TestExhaustiveFaults: 1..4 branches (new/existing patterns) x every write position of commit and
// of discard x both fault modes.
func TestExhaustiveFaults(t *testing.T) {
	for nb := 1; nb <= evid.Scale(3, 4); nb++ {
		for mask := 0; mask < 1<<uint(nb); mask++ {
			var bs []Branch
			for i := 0; i < nb; i++ {
				bs = append(bs, Branch{Name: branchNames[i], Existing: mask&(1<<uint(i)) != 0})
			}
			for _, h := range []string{"commit-fault", "discard-fault"} {
				nw, err := countWrites(Case{Branches: bs, History: h})
				if err != nil {
					t.Fatalf("HARNESS: %v", err)
				}
				for at := 1; at <= nw+1; at++ {
					for _, dead := range []bool{false, true} {
						sub.Check(t, Case{Branches: bs, History: h, FaultAt: at, Dead: dead})
					}
				}
			}
			for _, h := range []string{"commit", "commit-twice", "discard", "discard-after-commit", "commit-after-discard", "reapply"} {
				sub.Check(t, Case{Branches: bs, History: h})
			}
		}
	}
}

func TestReplay(t *testing.T) { evid.Replay(t) }

type world struct {
	db      objects.Store
	rs      ref.Store
	faults  *stores.SQLFaults
	id      uuid.UUID
	oldHead map[string][]byte
	staged  map[string][]byte // branch -> staged commit sum
	tables  map[string][]byte // branch -> staged table
	writes  int
	failAt  int
	dead    bool
	hit     bool
	closeFn func()
}

var errInjected = errors.New("injected store failure")

func (w *world) gate() error {
	w.writes++
	if w.failAt > 0 && (w.writes == w.failAt || (w.dead && w.writes > w.failAt)) {
		w.hit = true
		return errInjected
	}
	return nil
}

func setup(c Case) (*world, error) {
	// faults are injected below the ref store, at the individual sqlite write statements and
	// COMMITs, so that one can land between two statements of a single ref.Store method
	base, faults, closeFn, err := stores.NewFaultyRefStore()
	if err != nil {
		return nil, err
	}
	mem := stores.NewMem()
	w := &world{db: mem, oldHead: map[string][]byte{}, staged: map[string][]byte{}, tables: map[string][]byte{}, closeFn: closeFn}
	w.rs = base
	w.faults = faults
	for i, b := range c.Branches {
		if b.Existing {
			tbl := model.Sum([]byte("old-table-" + b.Name))
			sum, err := stores.SaveCommit(w.db, tbl, nil, time.Unix(1600000000+int64(i), 0), "old "+b.Name)
			if err != nil {
				return nil, err
			}
			if err := ref.CommitHead(w.rs, b.Name, sum, &objects.Commit{AuthorName: "v", AuthorEmail: "v@x", Message: "old"}, nil); err != nil {
				return nil, err
			}
			w.oldHead[b.Name] = sum
		}
	}
	id, err := w.rs.NewTransaction(nil)
	if err != nil {
		return nil, err
	}
	w.id = *id
	for i, b := range c.Branches {
		tbl := model.Sum([]byte("staged-table-" + b.Name))
		sum, err := stores.SaveCommit(w.db, tbl, nil, time.Unix(1600001000+int64(i), 0), "staged "+b.Name)
		if err != nil {
			return nil, err
		}
		if i%2 == 1 {
			// staged twice: a first try, then the corrected commit - the latter is what counts
			first, err := stores.SaveCommit(w.db, model.Sum([]byte("first-try-table-"+b.Name)), nil, time.Unix(1600000500+int64(i), 0), "first try "+b.Name)
			if err != nil {
				return nil, err
			}
			if err := ref.SaveTransactionRef(w.rs, w.id, b.Name, first); err != nil {
				return nil, err
			}
		}
		if err := ref.SaveTransactionRef(w.rs, w.id, b.Name, sum); err != nil {
			return nil, err
		}
		w.staged[b.Name] = sum
		w.tables[b.Name] = tbl
	}
	mem.BeforeWrite = func(op string, key []byte) error { return w.gate() }
	w.faults.SetGate(func(kind, query string) error { return w.gate() })
	return w, nil
}

// countWrites runs the case's operation without faults and returns how many storage writes
// (object writes, sqlite write statements, sqlite commits) it performs.
func countWrites(c Case) (int, error) {
	w, err := setup(c)
	if err != nil {
		return 0, err
	}
	defer w.closeFn()
	w.arm(0, false)
	switch c.History {
	case "discard", "discard-fault", "discard-after-commit":
		err = transaction.Discard(w.rs, w.id)
	default:
		_, err = transaction.Commit(w.db, w.rs, w.id)
	}
	return w.writes, err
}

func (w *world) arm(at int, dead bool) { w.writes, w.failAt, w.dead, w.hit = 0, at, dead, false }

type snap struct {
	heads map[string][]byte
	logs  map[string]int
	txs   map[string][]byte
}

func (w *world) snapshot(c Case) (*snap, error) {
	s := &snap{heads: map[string][]byte{}, logs: map[string]int{}, txs: map[string][]byte{}}
	for _, b := range c.Branches {
		if h, err := ref.GetHead(w.rs, b.Name); err == nil {
			s.heads[b.Name] = h
		}
		n, err := w.logLen(b.Name)
		if err != nil {
			return nil, err
		}
		s.logs[b.Name] = n
	}
	m, err := ref.ListTransactionRefs(w.rs, w.id)
	if err != nil {
		return nil, err
	}
	s.txs = m
	return s, nil
}

func (w *world) logLen(branch string) (int, error) {
	r, err := w.rs.LogReader("heads/" + branch)
	if err != nil {
		return 0, nil
	}
	defer r.Close()
	n := 0
	for {
		_, err := r.Read()
		if errors.Is(err, io.EOF) {
			return n, nil
		}
		if err != nil {
			return n, err
		}
		n++
	}
}

func sameSnap(a, b *snap) error {
	for k, v := range a.heads {
		if !bytes.Equal(b.heads[k], v) {
			return fmt.Errorf("branch %q moved", k)
		}
	}
	for k := range b.heads {
		if _, ok := a.heads[k]; !ok {
			return fmt.Errorf("branch %q appeared", k)
		}
	}
	for k, n := range a.logs {
		if b.logs[k] != n {
			return fmt.Errorf("log of branch %q changed (%d -> %d entries)", k, n, b.logs[k])
		}
	}
	return nil
}

// committed checks the all-branches outcome.
func (w *world) committed(c Case) error {
	for _, b := range c.Branches {
		head, err := ref.GetHead(w.rs, b.Name)
		if err != nil {
			return fmt.Errorf("branch %q has no head after commit", b.Name)
		}
		com, err := objects.GetCommit(w.db, head)
		if err != nil {
			return fmt.Errorf("branch %q points at an unreadable commit: %v", b.Name, err)
		}
		if !bytes.Equal(com.Table, w.tables[b.Name]) {
			return fmt.Errorf("branch %q head does not carry the staged table", b.Name)
		}
		old, had := w.oldHead[b.Name]
		if had {
			if len(com.Parents) != 1 || !bytes.Equal(com.Parents[0], old) {
				chain := w.chain(head)
				return fmt.Errorf("branch %q: new head's parent is not the previous head (first-parent chain of %d commits, expected 2): a commit was duplicated or history rewritten", b.Name, chain)
			}
		} else if len(com.Parents) != 0 {
			return fmt.Errorf("new branch %q: head has %d parents (first-parent chain %d): duplicated commit", b.Name, len(com.Parents), w.chain(head))
		}
		// exactly one log entry carrying the transaction id, with the true old and new values
		r, err := w.rs.LogReader("heads/" + b.Name)
		if err != nil {
			return fmt.Errorf("branch %q has no log: %v", b.Name, err)
		}
		n := 0
		for {
			rl, err := r.Read()
			if errors.Is(err, io.EOF) {
				break
			}
			if err != nil {
				return err
			}
			if rl.Txid != nil && *rl.Txid == w.id {
				n++
				if !bytes.Equal(rl.NewOID, head) || !bytes.Equal(rl.OldOID, old) {
					return fmt.Errorf("branch %q: transaction log entry has old %x new %x, expected old %x new %x", b.Name, rl.OldOID, rl.NewOID, old, head)
				}
			}
		}
		r.Close()
		if n != 1 {
			return fmt.Errorf("branch %q has %d log entries for the transaction, want 1", b.Name, n)
		}
	}
	tx, err := w.rs.GetTransaction(w.id)
	if err != nil {
		return fmt.Errorf("transaction row missing after commit: %v", err)
	}
	if tx.Status != ref.TSCommitted {
		return fmt.Errorf("transaction status %q after commit", tx.Status)
	}
	return nil
}

func (w *world) chain(head []byte) int {
	n := 0
	for head != nil && n < 20 {
		com, err := objects.GetCommit(w.db, head)
		if err != nil {
			break
		}
		n++
		if len(com.Parents) == 0 {
			break
		}
		head = com.Parents[0]
	}
	return n
}

func (w *world) discarded(c Case, before *snap) error {
	m, err := ref.ListTransactionRefs(w.rs, w.id)
	if err != nil {
		return err
	}
	if len(m) != 0 {
		return fmt.Errorf("%d staged refs remain after discard", len(m))
	}
	if _, err := w.rs.GetTransaction(w.id); err == nil {
		return fmt.Errorf("transaction row still exists after discard")
	}
	after, err := w.snapshot(c)
	if err != nil {
		return err
	}
	if err := sameSnap(before, after); err != nil {
		return fmt.Errorf("discard touched a branch: %v", err)
	}
	return nil
}

func run(c Case) (o evid.Outcome, err error) {
	w, err := setup(c)
	if err != nil {
		return o, fmt.Errorf("HARNESS: %v", err)
	}
	defer w.closeFn()
	before, err := w.snapshot(c)
	if err != nil {
		return o, fmt.Errorf("HARNESS: %v", err)
	}
	names := []string{}
	for _, b := range c.Branches {
		names = append(names, b.Name)
	}
	sort.Strings(names)
	o.Class("history=%s", c.History)
	o.Class("branches=%d", len(c.Branches))
	switch c.History {
	case "commit":
		w.arm(0, false)
		if _, err := transaction.Commit(w.db, w.rs, w.id); err != nil {
			return o, fmt.Errorf("Commit: %v", err)
		}
		if err := w.committed(c); err != nil {
			return o, err
		}
	case "commit-fault":
		w.arm(c.FaultAt, c.Dead)
		_, cerr := transaction.Commit(w.db, w.rs, w.id)
		hitC := w.hit
		w.arm(0, false) // the harness's own reads below must not run into the fault
		if !hitC {
			// the commit needs fewer writes than FaultAt: plain successful commit
			if cerr != nil {
				return o, fmt.Errorf("Commit: %v", cerr)
			}
			o.Class("fault-beyond-last-write")
			return o, w.committed(c)
		}
		if cerr == nil {
			// a failed read may be survivable (the answer was not needed); success is only
			// acceptable if the outcome is the complete, correct one
			if err := w.committed(c); err != nil {
				return o, fmt.Errorf("storage access #%d failed, Commit reported success, but: %v", c.FaultAt, err)
			}
			o.Class("fault-survived-with-correct-outcome")
			return o, nil
		}
		mid, err := w.snapshot(c)
		if err != nil {
			return o, fmt.Errorf("HARNESS: %v", err)
		}
		moved := 0
		for _, b := range c.Branches {
			if !bytes.Equal(mid.heads[b.Name], before.heads[b.Name]) {
				moved++
			}
		}
		if c.FaultAt2 > 0 {
			// the re-run is hit by a (single) failure of its own, e.g. while it reads back which
			// branches the interrupted attempt had already moved; it must fail, or finish correctly
			w.arm(c.FaultAt2, false)
			_, err2 := transaction.Commit(w.db, w.rs, w.id)
			hit2 := w.hit
			w.arm(0, false)
			if hit2 {
				o.Class("re-run-hit-by-a-second-fault")
			}
			if err2 == nil {
				if err := w.committed(c); err != nil {
					return o, fmt.Errorf("interrupted at access %d, then re-run with access %d failing: Commit reported success, but: %v", c.FaultAt, c.FaultAt2, err)
				}
				return o, nil
			}
		}
		// process restarted / fault gone: running the commit again must complete it
		w.arm(0, false)
		if _, err := transaction.Commit(w.db, w.rs, w.id); err != nil {
			if moved == 0 {
				// nothing moved: "leaves every branch where it was" holds, but the transaction must
				// still be usable
				return o, fmt.Errorf("re-running the interrupted commit (no branch had moved) fails: %v", err)
			}
			return o, fmt.Errorf("commit interrupted at write %d left %d of %d branches moved and re-running it fails: %v", c.FaultAt, moved, len(c.Branches), err)
		}
		if err := w.committed(c); err != nil {
			return o, fmt.Errorf("after an interruption at write %d (%d of %d branches had moved) and a re-run: %v", c.FaultAt, moved, len(c.Branches), err)
		}
		o.NonTrivial = len(c.Branches) >= 2 && moved >= 1 && moved < len(c.Branches)
		if moved > 0 && moved < len(c.Branches) {
			o.Class("interrupted-between-branches")
		}
	case "commit-twice":
		w.arm(0, false)
		if _, err := transaction.Commit(w.db, w.rs, w.id); err != nil {
			return o, fmt.Errorf("Commit: %v", err)
		}
		after1, _ := w.snapshot(c)
		if _, err := transaction.Commit(w.db, w.rs, w.id); err == nil {
			after2, _ := w.snapshot(c)
			if e := sameSnap(after1, after2); e != nil {
				return o, fmt.Errorf("a committed transaction was committed a second time: %v", e)
			}
			return o, fmt.Errorf("a committed transaction was committed a second time without error")
		}
		after2, _ := w.snapshot(c)
		if e := sameSnap(after1, after2); e != nil {
			return o, fmt.Errorf("second commit was refused but changed state: %v", e)
		}
		if err := w.committed(c); err != nil {
			return o, err
		}
		o.NonTrivial = true
	case "discard":
		w.arm(0, false)
		if err := transaction.Discard(w.rs, w.id); err != nil {
			return o, fmt.Errorf("Discard: %v", err)
		}
		if err := w.discarded(c, before); err != nil {
			return o, err
		}
	case "discard-fault":
		w.arm(c.FaultAt, c.Dead)
		derr := transaction.Discard(w.rs, w.id)
		hit := w.hit
		w.arm(0, false)
		if hit && derr == nil {
			return o, fmt.Errorf("storage access #%d failed but Discard reported success", c.FaultAt)
		}
		if hit {
			if err := transaction.Discard(w.rs, w.id); err != nil {
				return o, fmt.Errorf("re-running an interrupted discard fails: %v", err)
			}
		} else if derr != nil {
			return o, fmt.Errorf("Discard: %v", derr)
		}
		if err := w.discarded(c, before); err != nil {
			return o, err
		}
		o.NonTrivial = hit && len(c.Branches) >= 2
	case "discard-after-commit":
		w.arm(0, false)
		if _, err := transaction.Commit(w.db, w.rs, w.id); err != nil {
			return o, fmt.Errorf("Commit: %v", err)
		}
		after1, _ := w.snapshot(c)
		if err := transaction.Discard(w.rs, w.id); err == nil {
			return o, fmt.Errorf("a committed transaction was discarded")
		}
		after2, _ := w.snapshot(c)
		if e := sameSnap(after1, after2); e != nil {
			return o, fmt.Errorf("refused discard of a committed transaction changed a branch: %v", e)
		}
		if len(after2.txs) != len(after1.txs) {
			return o, fmt.Errorf("discard of a committed transaction was refused but removed %d of its %d staged refs", len(after1.txs)-len(after2.txs), len(after1.txs))
		}
		if err := w.committed(c); err != nil {
			return o, err
		}
		o.NonTrivial = true
	case "reapply":
		// the transaction is committed, every second branch (at least one) then moves on with a
		// commit of its own, and the transaction is applied again: the branches that moved get a new
		// commit on top of their current head carrying the transaction's table, the others are
		// left alone; every head stays a readable commit
		w.arm(0, false)
		if _, err := transaction.Commit(w.db, w.rs, w.id); err != nil {
			return o, fmt.Errorf("Commit: %v", err)
		}
		moved := map[string][]byte{}
		txHead := map[string][]byte{}
		for i, b := range c.Branches {
			h, err := ref.GetHead(w.rs, b.Name)
			if err != nil {
				return o, fmt.Errorf("HARNESS: %v", err)
			}
			txHead[b.Name] = h
			if i%2 == 0 {
				sum, err := stores.SaveCommit(w.db, model.Sum([]byte("later-table-"+b.Name)), [][]byte{h}, time.Unix(1600002000+int64(i), 0), "later "+b.Name)
				if err != nil {
					return o, fmt.Errorf("HARNESS: %v", err)
				}
				if err := ref.CommitHead(w.rs, b.Name, sum, &objects.Commit{AuthorName: "v", AuthorEmail: "v@x", Message: "later"}, nil); err != nil {
					return o, fmt.Errorf("HARNESS: %v", err)
				}
				moved[b.Name] = sum
			}
		}
		reported := map[string]bool{}
		if err := transaction.Reapply(w.db, w.rs, w.id, func(branch string, sum []byte, message string) {
			reported[branch] = sum != nil
		}); err != nil {
			return o, fmt.Errorf("Reapply: %v", err)
		}
		for _, b := range c.Branches {
			head, err := ref.GetHead(w.rs, b.Name)
			if err != nil {
				return o, fmt.Errorf("after Reapply branch %q has no head: %v", b.Name, err)
			}
			com, err := objects.GetCommit(w.db, head)
			if err != nil {
				return o, fmt.Errorf("after Reapply (%d of %d branches had moved on) branch %q points at an unreadable commit: %v", len(moved), len(c.Branches), b.Name, err)
			}
			if prev, ok := moved[b.Name]; ok {
				if len(com.Parents) != 1 || !bytes.Equal(com.Parents[0], prev) {
					return o, fmt.Errorf("after Reapply branch %q: head's parent is not the commit the branch had moved on to", b.Name)
				}
				if !bytes.Equal(com.Table, w.tables[b.Name]) {
					return o, fmt.Errorf("after Reapply branch %q: head does not carry the transaction's table", b.Name)
				}
				if !reported[b.Name] {
					return o, fmt.Errorf("Reapply did not report the new commit on %q", b.Name)
				}
				raw, _ := w.db.Get(append([]byte("com/"), head...))
				var buf bytes.Buffer
				com.WriteTo(&buf)
				if raw != nil && !bytes.Equal(raw, buf.Bytes()) {
					return o, fmt.Errorf("after Reapply the commit on %q is stored as %d bytes that are not its encoding (%d bytes)", b.Name, len(raw), buf.Len())
				}
			} else if !bytes.Equal(head, txHead[b.Name]) {
				return o, fmt.Errorf("Reapply moved branch %q although it still was at the transaction's commit", b.Name)
			}
		}
		o.NonTrivial = len(moved) >= 2
	case "commit-after-discard":
		w.arm(0, false)
		if err := transaction.Discard(w.rs, w.id); err != nil {
			return o, fmt.Errorf("Discard: %v", err)
		}
		if _, err := transaction.Commit(w.db, w.rs, w.id); err == nil {
			return o, fmt.Errorf("a discarded transaction was committed")
		}
		if err := w.discarded(c, before); err != nil {
			return o, err
		}
		o.NonTrivial = true
	}
	return o, nil
}
