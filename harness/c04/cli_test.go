package c04

import (
	"fmt"
	"os"
	"path/filepath"
	"strings"
	"testing"

	"pgregory.net/rapid"

	"verifharness/internal/cli"
	"verifharness/internal/evid"
	"verifharness/internal/gen"
	"verifharness/internal/model"
)

// CLI leg: `wrgl diff A B --no-gui` writes DIFF_<a>_<b>.csv whose row labels must agree with the
// reference diff.
var subCLI = evid.Register("diff-cli", runCLI)

func TestPropDiffCLI(t *testing.T) {
	rapid.Check(t, func(t *rapid.T) {
		u := gen.GenTable(t, gen.TableOpts{MaxCols: 4, MaxRows: evid.Scale(520, 800), Boundary: true, ForceUnique: true, ForcePK: true, NoSpecial: true}, "u")
		shape := rapid.SampledFrom(shapes).Draw(t, "shape")
		a, b := derive(t, u, shape)
		// SameStore false: the first side is a CSV file given on the command line (it is ingested
		// into a store of its own), the second a branch
		subCLI.Check(t, Case{A: a, B: b, SameStore: rapid.IntRange(0, 2).Draw(t, "fileVsBranch") != 0, Shape: shape})
	})
}

func runCLI(c Case) (o evid.Outcome, err error) {
	repo, err := cli.NewRepo()
	if err != nil {
		return o, fmt.Errorf("HARNESS: %v", err)
	}
	defer repo.Remove()
	fa, _ := repo.WriteFile("a.csv", c.A.CSV(','))
	fb, _ := repo.WriteFile("b.csv", c.B.CSV(','))
	pk := strings.Join(c.A.PKNames(), ",")
	if c.SameStore {
		if out, err := repo.Run("commit", "a", fa, "a", "-p", pk, "-n", "1"); err != nil {
			return o, fmt.Errorf("HARNESS: commit a: %v (%s)", err, out)
		}
	}
	if out, err := repo.Run("commit", "b", fb, "b", "-p", pk, "-n", "1"); err != nil {
		return o, fmt.Errorf("HARNESS: commit b: %v (%s)", err, out)
	}
	args := []string{"diff", "a", "b", "--no-gui"}
	if !c.SameStore {
		args = []string{"diff", fa, "b", "--no-gui", "-p", pk}
		o.Class("file-vs-branch")
	}
	out, err := repo.Run(args...)
	if err != nil {
		return o, fmt.Errorf("wrgl %s: %v (%s)", strings.Join(args, " "), err, out)
	}
	files, _ := filepath.Glob(filepath.Join(repo.Root, "DIFF_*.csv"))
	if len(files) != 1 {
		return o, fmt.Errorf("wrgl diff --no-gui wrote %d DIFF files; output %q", len(files), out)
	}
	raw, err := os.ReadFile(files[0])
	if err != nil {
		return o, fmt.Errorf("HARNESS: %v", err)
	}
	hdr, recs, perr := gen.ParseCSV(raw, ',')
	if perr != nil {
		return o, fmt.Errorf("DIFF file is not CSV: %v", perr)
	}
	recs = append([][]string{hdr}, recs...)
	npk := len(c.A.PK)
	got := map[string]string{}
	for _, r := range recs {
		if len(r) < 1+npk {
			continue
		}
		kind := ""
		switch {
		case strings.HasPrefix(r[0], "ADDED IN"):
			kind = "added"
		case strings.HasPrefix(r[0], "REMOVED IN"):
			kind = "removed"
		case strings.HasPrefix(r[0], "BASE ROW FROM"):
			kind = "modified"
		default:
			continue
		}
		id := model.TupleID(r[1 : 1+npk]) // the key columns are hoisted to the front
		if prev, dup := got[id]; dup {
			return o, fmt.Errorf("key %q appears twice in the DIFF file (%s, %s)", r[1:1+npk], prev, kind)
		}
		got[id] = kind
	}
	// reference diff from the committed CSVs (what encoding/csv reads back, keys unique)
	_, rowsA, _ := gen.ParseCSV(c.A.CSV(','), ',')
	_, rowsB, _ := gen.ParseCSV(c.B.CSV(','), ',')
	inA := map[string][]string{}
	for _, r := range rowsA {
		inA[model.TupleID(model.KeyOf(r, c.A.PK))] = r
	}
	inB := map[string][]string{}
	for _, r := range rowsB {
		inB[model.TupleID(model.KeyOf(r, c.B.PK))] = r
	}
	want := map[string]string{}
	for id, r := range inA {
		if rb, ok := inB[id]; !ok {
			want[id] = "added"
		} else if !model.RowsEqual(r, rb) {
			want[id] = "modified"
		}
	}
	for id := range inB {
		if _, ok := inA[id]; !ok {
			want[id] = "removed"
		}
	}
	for id, k := range want {
		if got[id] != k {
			return o, fmt.Errorf("wrgl diff --no-gui: a key expected as %q is reported as %q (DIFF file has %d events, expected %d)", k, orNone(got[id]), len(got), len(want))
		}
	}
	for id, k := range got {
		if want[id] != k {
			return o, fmt.Errorf("wrgl diff --no-gui reports a key as %q that the reference diff has as %q", k, orNone(want[id]))
		}
	}
	o.NonTrivial = len(want) > 0 && len(rowsA) > 0 && len(rowsB) > 0
	o.Class("shape=%s", c.Shape)
	o.Class("blocksA=%d", (len(rowsA)+254)/255)
	return o, nil
}
