// C04 — diff reports exactly the rows added, removed and modified between two tables.
package c04

import (
	"bytes"
	"fmt"
	"sort"
	"testing"

	"github.com/go-logr/logr"
	"github.com/wrgl/wrgl/pkg/diff"
	"github.com/wrgl/wrgl/pkg/objects"
	"pgregory.net/rapid"

	"verifharness/internal/evid"
	"verifharness/internal/gen"
	"verifharness/internal/ingestx"
	"verifharness/internal/model"
	"verifharness/internal/stores"
	"verifharness/internal/tblcheck"
)

func TestMain(m *testing.M) { evid.Main("C04", m) }

type Case struct {
	A gen.Table `json:"a"`
	B gen.Table `json:"b"`
	// SameStore: both tables live in one object store (the usual case) or in two
	SameStore bool   `json:"same_store"`
	Shape     string `json:"shape"`
}

var sub = evid.Register("diff", run)

var shapes = []string{"random", "random", "random", "identical", "disjoint", "interleaved", "nested", "edges", "emptyA", "emptyB", "bothEmpty", "modifiedOnly"}

// derive builds the two tables from a universe of unique-key rows according to a key-set shape.
func derive(t *rapid.T, u gen.Table, shape string) (a, b gen.Table) {
	groups := model.Canon(gen.Rows(u.Rows), u.PK)
	n := len(groups)
	a = gen.Table{Cols: u.Cols, PK: u.PK, Rows: [][]gen.Cell{}}
	b = gen.Table{Cols: u.Cols, PK: u.PK, Rows: [][]gen.Cell{}}
	isKey := map[int]bool{}
	for _, k := range u.PK {
		isKey[k] = true
	}
	nonKey := []int{}
	for i := range u.Cols {
		if !isKey[i] {
			nonKey = append(nonKey, i)
		}
	}
	modify := func(r []gen.Cell, salt int) []gen.Cell {
		out := append([]gen.Cell{}, r...)
		if len(nonKey) == 0 {
			return out // keyless or all-key rows cannot be modified without changing the key
		}
		c := nonKey[salt%len(nonKey)]
		out[c] = out[c] + gen.Cell(fmt.Sprintf("~%d", salt%3))
		return out
	}
	for i, g := range groups {
		row := gen.Cells(g.Rows[0])
		var where int // 0 both same, 1 both modified, 2 only A, 3 only B
		switch shape {
		case "identical":
			where = 0
		case "disjoint":
			if i < n/2 {
				where = 2
			} else {
				where = 3
			}
		case "interleaved":
			where = 2 + i%2
		case "nested":
			if i >= n/3 && i < 2*n/3 {
				where = rapid.IntRange(0, 1).Draw(t, "nestedMod")
			} else {
				where = 2
			}
		case "edges":
			m := i % 255
			if m <= 1 || m >= 253 {
				where = rapid.IntRange(0, 1).Draw(t, "edgeMod")
			} else {
				where = 2
			}
		case "emptyA":
			where = 3
		case "emptyB":
			where = 2
		case "bothEmpty":
			continue
		case "modifiedOnly":
			where = rapid.IntRange(0, 1).Draw(t, "mod")
		default:
			where = rapid.SampledFrom([]int{0, 0, 0, 1, 2, 3}).Draw(t, "where")
		}
		switch where {
		case 0:
			a.Rows = append(a.Rows, row)
			b.Rows = append(b.Rows, row)
		case 1:
			a.Rows = append(a.Rows, modify(row, i))
			b.Rows = append(b.Rows, row)
		case 2:
			a.Rows = append(a.Rows, row)
		case 3:
			b.Rows = append(b.Rows, row)
		}
	}
	return a, b
}

func TestPropDiff(t *testing.T) {
	rapid.Check(t, func(t *rapid.T) {
		u := gen.GenTable(t, gen.TableOpts{MaxCols: 4, MaxRows: evid.Scale(800, 1100), Boundary: true, ForceUnique: true, MaxBig: 0, PreferLarge: true}, "u")
		shape := rapid.SampledFrom(shapes).Draw(t, "shape")
		a, b := derive(t, u, shape)
		sub.Check(t, Case{A: a, B: b, SameStore: rapid.Bool().Draw(t, "samestore"), Shape: shape})
	})
}

// column-differ family: B gets an extra column / a renamed non-key column
var subCols = evid.Register("diff-columns-differ", runColsDiffer)

func TestPropDiffColumnsDiffer(t *testing.T) {
	rapid.Check(t, func(t *rapid.T) {
		u := gen.GenTable(t, gen.TableOpts{MaxCols: 4, MaxRows: evid.Scale(300, 600), Boundary: true, ForceUnique: true, ForcePK: true, NoSpecial: true}, "u")
		shape := rapid.SampledFrom(shapes).Draw(t, "shape")
		a, b := derive(t, u, shape)
		// add a column at the end of B
		b2 := gen.Table{Cols: append(append([]string{}, b.Cols...), "extra"), PK: b.PK}
		for _, r := range b.Rows {
			b2.Rows = append(b2.Rows, append(append([]gen.Cell{}, r...), "e"))
		}
		if b2.Rows == nil {
			b2.Rows = [][]gen.Cell{}
		}
		subCols.Check(t, Case{A: a, B: b2, SameStore: true, Shape: shape})
	})
}

func TestReplay(t *testing.T) { evid.Replay(t) }

type stored struct {
	db   objects.Store
	tbl  *objects.Table
	idx  [][]string
	rows [][]string
	pk   []int
}

func store(db objects.Store, t gen.Table) (*stored, error) {
	sum, err := ingestx.Simple(db, t)
	if err != nil {
		return nil, fmt.Errorf("HARNESS: ingest: %v", err)
	}
	rows, err := tblcheck.Validate(db, sum)
	if err != nil {
		return nil, fmt.Errorf("HARNESS: ingested table invalid (C03 owns this): %v", err)
	}
	tbl, err := objects.GetTable(db, sum)
	if err != nil {
		return nil, err
	}
	idx, err := objects.GetTableIndex(db, sum)
	if err != nil {
		return nil, err
	}
	return &stored{db: db, tbl: tbl, idx: idx, rows: rows, pk: t.PK}, nil
}

type event struct {
	kind string // added | removed | modified
	key  string
}

func collect(x, y *stored) ([]*objects.Diff, error) {
	errCh := make(chan error, 10)
	ch, _ := diff.DiffTables(x.db, y.db, x.tbl, y.tbl, x.idx, y.idx, errCh, logr.Discard())
	var out []*objects.Diff
	for d := range ch {
		cp := *d
		cp.PK = append([]byte{}, d.PK...)
		if d.Sum != nil {
			cp.Sum = append([]byte{}, d.Sum...)
		}
		if d.OldSum != nil {
			cp.OldSum = append([]byte{}, d.OldSum...)
		}
		out = append(out, &cp)
	}
	select {
	case e := <-errCh:
		return out, fmt.Errorf("error channel: %v", e)
	default:
	}
	return out, nil
}

// check compares the events of diff(x, y) with the reference diff. strictModified=false is the
// column-differ family where modified may be any superset of the content changes within the
// common keys.
func check(name string, x, y *stored, strictModified bool, contentDiffers func(rx, ry []string) bool) (nAdded, nRemoved, nMod int, err error) {
	evs, err := collect(x, y)
	if err != nil {
		return 0, 0, 0, fmt.Errorf("%s: %v", name, err)
	}
	inX := map[string]int{}
	for i, r := range x.rows {
		inX[string(model.KeySum(r, x.pk))] = i
	}
	inY := map[string]int{}
	for i, r := range y.rows {
		inY[string(model.KeySum(r, y.pk))] = i
	}
	seen := map[string]bool{}
	got := map[string]string{}
	for _, d := range evs {
		k := string(d.PK)
		if seen[k] {
			return 0, 0, 0, fmt.Errorf("%s: key %x reported twice", name, d.PK)
		}
		seen[k] = true
		switch {
		case d.Sum != nil && d.OldSum == nil:
			got[k] = "added"
		case d.Sum == nil && d.OldSum != nil:
			got[k] = "removed"
		case d.Sum != nil && d.OldSum != nil:
			got[k] = "modified"
		default:
			return 0, 0, 0, fmt.Errorf("%s: event for key %x carries no row hash", name, d.PK)
		}
		if d.Sum != nil {
			i, ok := inX[k]
			if !ok {
				return 0, 0, 0, fmt.Errorf("%s: %s event for key %x which is not in the first table", name, got[k], d.PK)
			}
			if int(d.Offset) != i {
				return 0, 0, 0, fmt.Errorf("%s: %s event for key %q has Offset %d, the row is at %d", name, got[k], model.KeyOf(x.rows[i], x.pk), d.Offset, i)
			}
			if !bytes.Equal(d.Sum, model.RowSum(x.rows[i])) {
				return 0, 0, 0, fmt.Errorf("%s: %s event for key %q has a Sum that is not the hash of the row at its offset", name, got[k], model.KeyOf(x.rows[i], x.pk))
			}
		}
		if d.OldSum != nil {
			i, ok := inY[k]
			if !ok {
				return 0, 0, 0, fmt.Errorf("%s: %s event for key %x which is not in the second table", name, got[k], d.PK)
			}
			if int(d.OldOffset) != i {
				return 0, 0, 0, fmt.Errorf("%s: %s event for key %q has OldOffset %d, the row is at %d", name, got[k], model.KeyOf(y.rows[i], y.pk), d.OldOffset, i)
			}
			if !bytes.Equal(d.OldSum, model.RowSum(y.rows[i])) {
				return 0, 0, 0, fmt.Errorf("%s: %s event for key %q has an OldSum that is not the hash of the row at its offset", name, got[k], model.KeyOf(y.rows[i], y.pk))
			}
		}
	}
	// reference diff
	for k, i := range inX {
		j, both := inY[k]
		want := ""
		switch {
		case !both:
			want = "added"
		case contentDiffers(x.rows[i], y.rows[j]):
			want = "modified"
		}
		g := got[k]
		if want == "" && g == "modified" && !strictModified {
			continue
		}
		if g != want {
			return 0, 0, 0, fmt.Errorf("%s: key %q: expected %q, diff reported %q", name, model.KeyOf(x.rows[i], x.pk), orNone(want), orNone(g))
		}
	}
	for k, j := range inY {
		if _, both := inX[k]; !both {
			if got[k] != "removed" {
				return 0, 0, 0, fmt.Errorf("%s: key %q is only in the second table, diff reported %q", name, model.KeyOf(y.rows[j], y.pk), orNone(got[k]))
			}
		}
	}
	// the modified rows as a consumer sees them: RowChangeReader pairs, per column, the new value
	// with the old one (one value where they agree). Same column lists only.
	if strictModified && model.RowsEqual(x.tbl.Columns, y.tbl.Columns) {
		cd := diff.CompareColumns([2][]string{y.tbl.Columns, y.tbl.PrimaryKey()}, [2][]string{x.tbl.Columns, x.tbl.PrimaryKey()})
		rcr, err := diff.NewRowChangeReader(x.db, y.db, x.tbl, y.tbl, cd)
		if err != nil {
			return 0, 0, 0, fmt.Errorf("%s: NewRowChangeReader: %v", name, err)
		}
		var keys []string
		for _, d := range evs {
			if d.Sum != nil && d.OldSum != nil {
				rcr.AddRowDiff(d)
				keys = append(keys, string(d.PK))
			}
		}
		col := map[string]int{}
		for i, n := range x.tbl.Columns {
			col[n] = i
		}
		for n, k := range keys {
			merged, err := rcr.Read()
			if err != nil {
				return 0, 0, 0, fmt.Errorf("%s: RowChangeReader.Read #%d: %v", name, n, err)
			}
			rx, ry := x.rows[inX[k]], y.rows[inY[k]]
			if len(merged) != len(cd.Names) {
				return 0, 0, 0, fmt.Errorf("%s: RowChangeReader row #%d has %d columns, layout has %d", name, n, len(merged), len(cd.Names))
			}
			for ci, cn := range cd.Names {
				nv, ov := rx[col[cn]], ry[col[cn]]
				want := []string{nv, ov}
				if nv == ov {
					want = []string{ov}
				}
				if !model.RowsEqual(merged[ci], want) {
					return 0, 0, 0, fmt.Errorf("%s: modified key %q, column %q: RowChangeReader gives %q, the two rows hold new %q / old %q", name, model.KeyOf(rx, x.pk), cn, merged[ci], nv, ov)
				}
			}
		}
	}
	for _, v := range got {
		switch v {
		case "added":
			nAdded++
		case "removed":
			nRemoved++
		default:
			nMod++
		}
	}
	return
}

func orNone(s string) string {
	if s == "" {
		return "nothing"
	}
	return s
}

func run(c Case) (o evid.Outcome, err error) {
	db1 := stores.NewMem()
	var db2 objects.Store = db1
	if !c.SameStore {
		db2 = stores.NewMem()
	}
	x, err := store(db1, c.A)
	if err != nil {
		return o, err
	}
	y, err := store(db2, c.B)
	if err != nil {
		return o, err
	}
	differs := func(rx, ry []string) bool { return !model.RowsEqual(rx, ry) }
	ad, rm, md, err := check("diff(A,B)", x, y, true, differs)
	if err != nil {
		return o, err
	}
	ad2, rm2, md2, err := check("diff(B,A)", y, x, true, differs)
	if err != nil {
		return o, err
	}
	if ad != rm2 || rm != ad2 || md != md2 {
		return o, fmt.Errorf("swapping the arguments does not swap added/removed: (%d,%d,%d) vs (%d,%d,%d)", ad, rm, md, ad2, rm2, md2)
	}
	if a, r, m, err := check("diff(A,A)", x, x, true, differs); err != nil {
		return o, err
	} else if a+r+m != 0 {
		return o, fmt.Errorf("diff of a table against itself reported %d events", a+r+m)
	}
	na, nb := len(x.rows), len(y.rows)
	common := na - ad
	o.NonTrivial = (na > 0 && nb > 0 && common > 0 && ad+rm+md > 0) || na > 255 || nb > 255 || (na == 0) != (nb == 0)
	o.Class("shape=%s", c.Shape)
	o.Class("blocksA=%d", (na+254)/255)
	o.Class("blocksB=%d", (nb+254)/255)
	o.Class("pk=%d", len(c.A.PK))
	if na == 0 || nb == 0 {
		o.Class("empty-side")
	}
	return o, nil
}

func runColsDiffer(c Case) (o evid.Outcome, err error) {
	db := stores.NewMem()
	x, err := store(db, c.A)
	if err != nil {
		return o, err
	}
	y, err := store(db, c.B)
	if err != nil {
		return o, err
	}
	// content differs by column name over the shared columns
	colB := map[string]int{}
	for i, n := range c.B.Cols {
		colB[n] = i
	}
	differs := func(rx, ry []string) bool { return true } // different column lists: every common row counts as changed layout
	_ = colB
	ad, rm, md, err := check("diff(A,B)", x, y, false, differs)
	if err != nil {
		return o, err
	}
	o.NonTrivial = ad+rm+md > 0
	o.Class("shape=%s", c.Shape)
	keys := []string{}
	sort.Strings(keys)
	return o, nil
}
