package c04

import (
	"fmt"
	"testing"

	"pgregory.net/rapid"

	"verifharness/internal/evid"
	"verifharness/internal/gen"
	"verifharness/internal/model"
	"verifharness/internal/stores"
)

// Tables with more than 256 blocks (> 65 280 rows): block numbers no longer fit a byte and row
// offsets exceed 16 bits. Rows are procedural so the case stays small.
type HugeCase struct {
	N      int   `json:"n"`       // rows of the first table
	Mods   []int `json:"mods"`    // row numbers whose non-key cell differs in the second table
	OnlyA  []int `json:"only_a"`  // row numbers missing from the second table
	ExtraB int   `json:"extra_b"` // extra rows appended to the second table
}

var subHuge = evid.Register("diff-huge", runHuge)

func TestPropDiffHuge(t *testing.T) {
	rapid.Check(t, func(t *rapid.T) {
		c := HugeCase{N: rapid.SampledFrom([]int{65281, 65536, 66000, 70000}).Draw(t, "n")}
		pick := func(label string) int {
			// aim at the blocks beyond number 255 and at the 16-bit offset boundary
			base := rapid.SampledFrom([]int{65280, 65535, 65536, 255 * 256, 0, 255, c.N - 1}).Draw(t, label+"base")
			off := rapid.IntRange(-3, 3).Draw(t, label+"off")
			v := base + off
			if v < 0 {
				v = 0
			}
			if v >= c.N {
				v = c.N - 1
			}
			return v
		}
		for i, n := 0, rapid.IntRange(1, 6).Draw(t, "nmods"); i < n; i++ {
			c.Mods = append(c.Mods, pick("mod"))
		}
		for i, n := 0, rapid.IntRange(0, 3).Draw(t, "nonly"); i < n; i++ {
			c.OnlyA = append(c.OnlyA, pick("only"))
		}
		c.ExtraB = rapid.IntRange(0, 2).Draw(t, "extra")
		subHuge.Check(t, c)
	})
}

func runHuge(c HugeCase) (o evid.Outcome, err error) {
	mod := map[int]bool{}
	for _, m := range c.Mods {
		mod[m] = true
	}
	only := map[int]bool{}
	for _, m := range c.OnlyA {
		only[m] = true
	}
	a := gen.Table{Cols: []string{"id", "v"}, PK: []int{0}}
	b := gen.Table{Cols: []string{"id", "v"}, PK: []int{0}}
	for i := 0; i < c.N; i++ {
		k := gen.Cell(fmt.Sprintf("k%07d", i))
		a.Rows = append(a.Rows, []gen.Cell{k, "x"})
		if only[i] {
			continue
		}
		if mod[i] {
			b.Rows = append(b.Rows, []gen.Cell{k, "y"})
		} else {
			b.Rows = append(b.Rows, []gen.Cell{k, "x"})
		}
	}
	for i := 0; i < c.ExtraB; i++ {
		b.Rows = append(b.Rows, []gen.Cell{gen.Cell(fmt.Sprintf("z%07d", i)), "x"})
	}
	db := stores.NewMem()
	x, err := store(db, a)
	if err != nil {
		return o, err
	}
	y, err := store(db, b)
	if err != nil {
		return o, err
	}
	differs := func(rx, ry []string) bool { return !model.RowsEqual(rx, ry) }
	if _, _, _, err := check("diff(A,B)", x, y, true, differs); err != nil {
		return o, err
	}
	if _, _, _, err := check("diff(B,A)", y, x, true, differs); err != nil {
		return o, err
	}
	o.NonTrivial = true
	o.Class("rows=%d", c.N)
	return o, nil
}
