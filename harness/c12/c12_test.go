// C12 — pruning removes only unreachable objects and leaves every ref fully usable.
package c12

import (
	"bytes"
	"fmt"
	"strings"
	"testing"

	"github.com/wrgl/wrgl/pkg/objects"
	"github.com/wrgl/wrgl/pkg/prune"
	"pgregory.net/rapid"

	"verifharness/internal/evid"
	"verifharness/internal/gen"
	"verifharness/internal/ingestx"
	"verifharness/internal/model"
	"verifharness/internal/stores"
	"verifharness/internal/tblcheck"
)

func TestMain(m *testing.M) { evid.Main("C12", m) }

type RefSpec struct {
	Kind    int  `json:"kind"` // 0 head 1 tag 2 remote-tracking 3 transaction ref 4 custom
	Node    int  `json:"node"`
	Deleted bool `json:"deleted"` // removed again before pruning
}

type Case struct {
	DAG  gen.DAG   `json:"dag"`
	Refs []RefSpec `json:"refs"`
	// ShallowFirst: first byte of the absent table sum of shallow commits (decides where the
	// missing table sorts among the stored ones)
	ShallowFirst []int `json:"shallow_first"`
	// FailRow > 0: while prune runs, the n-th row read from the ref store fails once (a listing
	// breaks off part-way): prune must report the error or still be right - never take the refs it
	// did not get to see for deleted
	FailRow int `json:"fail_row,omitempty"`
}

var sub = evid.Register("prune", run)

const poolSize = 7

// pool builds tables that share blocks: all have 300 rows (2 blocks); variants differ in a row of the
// second block (sharing block 1), of the first block (sharing block 2), or in both. Variants 5 and 6
// hold the rows of variant 0 under another primary key ([id,v] / none): the rows sort the same
// way, so the blocks are shared while the block indices are not (more block indices than blocks).
func pool(db objects.Store) ([][]byte, error) {
	var sums [][]byte
	for v := 0; v < poolSize; v++ {
		t := gen.Table{Cols: []string{"id", "v"}, PK: []int{0}}
		if v == 5 {
			t.PK = []int{0, 1}
		} else if v == 6 {
			t.PK = []int{}
		}
		for i := 0; i < 300; i++ {
			val := "x"
			if (v == 1 || v == 3) && i == 290 {
				val = "second-block-changed"
			}
			if (v == 2 || v == 3) && i == 10 {
				val = "first-block-changed"
			}
			if v == 4 {
				val = "all-different"
			}
			t.Rows = append(t.Rows, []gen.Cell{gen.Cell(fmt.Sprintf("k%05d", i)), gen.Cell(val)})
		}
		s, err := ingestx.Simple(db, t)
		if err != nil {
			return nil, err
		}
		sums = append(sums, s)
	}
	return sums, nil
}

func TestPropPrune(t *testing.T) {
	rapid.Check(t, func(t *rapid.T) {
		d := gen.GenDAG(t, gen.DAGOpts{MinNodes: 1, MaxNodes: evid.Scale(10, 20), MaxParents: 3, Tables: poolSize}, "dag")
		c := Case{DAG: d}
		n := len(d.Nodes)
		for i := range c.DAG.Nodes {
			sh := rapid.IntRange(0, 7).Draw(t, "shallow") == 0
			c.DAG.Nodes[i].Shallow = sh
			f := 0
			if sh {
				f = rapid.SampledFrom([]int{0xff, 0x00, 0x80, 0xfe}).Draw(t, "shallowFirst")
			}
			c.ShallowFirst = append(c.ShallowFirst, f)
		}
		nr := rapid.IntRange(0, 5).Draw(t, "nrefs")
		for i := 0; i < nr; i++ {
			c.Refs = append(c.Refs, RefSpec{
				Kind:    rapid.IntRange(0, 4).Draw(t, "kind"),
				Node:    n - 1 - rapid.IntRange(0, n-1).Draw(t, "node"),
				Deleted: rapid.IntRange(0, 3).Draw(t, "deleted") == 0,
			})
		}
		if rapid.IntRange(0, 3).Draw(t, "failrow") == 0 {
			c.FailRow = rapid.IntRange(1, 8).Draw(t, "failRow")
		}
		sub.Check(t, c)
	})
}

func TestReplay(t *testing.T) { evid.Replay(t) }

func refName(j int, k int) string {
	switch k {
	case 0:
		return fmt.Sprintf("heads/b%d", j)
	case 1:
		return fmt.Sprintf("tags/t%d", j)
	case 2:
		return fmt.Sprintf("remotes/origin/r%d", j)
	case 3:
		return fmt.Sprintf("txs/7c9e6679-7425-40de-944b-e07fc1f90ae%d/b%d", j%10, j)
	}
	return fmt.Sprintf("refs/custom/x%d", j)
}

func keysWith(snap map[string][]byte, prefix string) map[string]bool {
	m := map[string]bool{}
	for k := range snap {
		if strings.HasPrefix(k, prefix) {
			m[k[len(prefix):]] = true
		}
	}
	return m
}

func run(c Case) (o evid.Outcome, err error) {
	db := stores.NewMem()
	poolSums, err := pool(db)
	if err != nil {
		return o, fmt.Errorf("HARNESS: pool: %v", err)
	}
	n := len(c.DAG.Nodes)
	tableOf := make([][]byte, n)
	used := map[string]bool{}
	for i, nd := range c.DAG.Nodes {
		if nd.Shallow {
			s := model.Sum([]byte(fmt.Sprintf("absent-%d", i)))
			s[0] = byte(c.ShallowFirst[i])
			tableOf[i] = s
		} else {
			tableOf[i] = poolSums[nd.Table%poolSize]
			used[string(tableOf[i])] = true
		}
	}
	// drop pool tables nobody uses (orphans are unconstrained by the statement; keep the state clean)
	for _, s := range poolSums {
		if !used[string(s)] {
			objects.DeleteTable(db, s)
			objects.DeleteTableIndex(db, s)
			objects.DeleteTableProfile(db, s)
		}
	}
	d := gen.DAG{}
	for i, nd := range c.DAG.Nodes {
		x := nd
		x.Table = i
		d.Nodes = append(d.Nodes, x)
	}
	sums, err := stores.BuildHistory(db, d, tableOf)
	if err != nil {
		return o, fmt.Errorf("HARNESS: %v", err)
	}
	rs, faults, closeFn, err := stores.NewFaultyRefStore()
	if err != nil {
		return o, fmt.Errorf("HARNESS: %v", err)
	}
	defer closeFn()
	live := []int{}
	kinds := map[int]bool{}
	for j, r := range c.Refs {
		name := refName(j, r.Kind)
		if err := rs.Set(name, sums[r.Node]); err != nil {
			return o, fmt.Errorf("HARNESS: %v", err)
		}
		if r.Deleted {
			if err := rs.Delete(name); err != nil {
				return o, fmt.Errorf("HARNESS: %v", err)
			}
		} else {
			live = append(live, r.Node)
			kinds[r.Kind] = true
		}
	}
	g := model.Graph{Parents: stores.GraphOf(c.DAG)}
	reach := g.Anc(live...)

	// block/table reference model from the stored tables
	before := db.Snapshot()
	tblBlocks := map[string][][]byte{}
	tblBlockIdx := map[string][][]byte{}
	for ts := range keysWith(before, "tbl/") {
		t, err := objects.GetTable(db, []byte(ts))
		if err != nil {
			return o, fmt.Errorf("HARNESS: %v", err)
		}
		tblBlocks[ts] = t.Blocks
		tblBlockIdx[ts] = t.BlockIndices
	}

	if c.FailRow > 0 {
		rowsRead, hit := 0, false
		faults.SetGate(func(kind, query string) error {
			if kind == "row" {
				rowsRead++
				if rowsRead == c.FailRow {
					hit = true
					return stores.ErrSQLInjected
				}
			}
			return nil
		})
		perr := prune.Prune(db, rs, nil)
		faults.SetGate(nil)
		if hit {
			o.Class("ref-listing-broke-off")
		}
		if perr != nil {
			// reported: nothing a live ref reaches may be gone
			mid := db.Snapshot()
			for i, s := range sums {
				if _, ok := mid["com/"+string(s)]; reach[i] && !ok {
					return o, fmt.Errorf("prune failed (%v) after removing commit c%d, which a ref reaches", perr, i)
				}
			}
		}
	}
	if err := prune.Prune(db, rs, nil); err != nil {
		return o, fmt.Errorf("Prune: %v", err)
	}
	after := db.Snapshot()

	// commits: exactly the reachable ones survive
	removedCommits := 0
	for i, s := range sums {
		_, ok := after["com/"+string(s)]
		if reach[i] && !ok {
			return o, fmt.Errorf("commit c%d is reachable from a ref but was removed", i)
		}
		if !reach[i] && ok {
			return o, fmt.Errorf("commit c%d is not reachable from any ref but survived", i)
		}
		if !reach[i] {
			removedCommits++
		}
	}
	keepTables := map[string]bool{}
	shallowSurvivor := false
	for i := range sums {
		if reach[i] {
			keepTables[string(tableOf[i])] = true
			if c.DAG.Nodes[i].Shallow {
				shallowSurvivor = true
			}
		}
	}
	keepBlocks := map[string]bool{}
	keepBlockIdx := map[string]bool{}
	for ts := range keepTables {
		for _, b := range tblBlocks[ts] {
			keepBlocks[string(b)] = true
		}
		for _, b := range tblBlockIdx[ts] {
			keepBlockIdx[string(b)] = true
		}
	}
	sharedBlock := false
	for ts := range tblBlocks {
		if keepTables[ts] {
			continue
		}
		for _, b := range tblBlocks[ts] {
			if keepBlocks[string(b)] {
				sharedBlock = true
			}
		}
	}
	same := func(k string) error {
		a, ok := after[k]
		if !ok {
			return fmt.Errorf("object %s%x needed by a surviving commit was removed", k[:strings.IndexByte(k, '/')+1], k[strings.IndexByte(k, '/')+1:])
		}
		if !bytes.Equal(a, before[k]) {
			return fmt.Errorf("object %q changed", k[:4])
		}
		return nil
	}
	for ts := range tblBlocks {
		if keepTables[ts] {
			for _, p := range []string{"tbl/", "tblidx/", "tblsum/"} {
				if _, had := before[p+ts]; had {
					if err := same(p + ts); err != nil {
						return o, err
					}
				}
			}
		} else if removedCommits > 0 {
			for _, p := range []string{"tbl/", "tblidx/", "tblsum/"} {
				if _, still := after[p+ts]; still {
					return o, fmt.Errorf("%s%x is referenced only by removed commits but survived", p, ts)
				}
			}
		}
	}
	for b := range keysWith(before, "blk/") {
		if keepBlocks[b] {
			if err := same("blk/" + b); err != nil {
				return o, err
			}
		} else if removedCommits > 0 {
			if _, still := after["blk/"+b]; still {
				return o, fmt.Errorf("block %x is referenced only by removed tables but survived", b)
			}
		}
	}
	for b := range keysWith(before, "blkidx/") {
		if keepBlockIdx[b] {
			if err := same("blkidx/" + b); err != nil {
				return o, err
			}
		} else if removedCommits > 0 {
			if _, still := after["blkidx/"+b]; still {
				return o, fmt.Errorf("block index %x is referenced only by removed tables but survived", b)
			}
		}
	}
	// every surviving complete commit is fully usable
	for ts := range keepTables {
		if _, had := before["tbl/"+ts]; had {
			if _, err := tblcheck.Validate(db, []byte(ts)); err != nil {
				return o, fmt.Errorf("surviving table %x is no longer sound: %v", ts, err)
			}
		}
	}
	// pruning again changes nothing
	if err := prune.Prune(db, rs, nil); err != nil {
		return o, fmt.Errorf("second Prune: %v", err)
	}
	again := db.Snapshot()
	if len(again) != len(after) {
		return o, fmt.Errorf("second prune changed the store: %d -> %d objects", len(after), len(again))
	}
	for k := range after {
		if _, ok := again[k]; !ok {
			return o, fmt.Errorf("second prune removed %q", k[:4])
		}
	}
	nonHead := false
	for k := range kinds {
		if k != 0 {
			nonHead = true
		}
	}
	o.NonTrivial = removedCommits > 0 && sharedBlock && (shallowSurvivor || nonHead)
	if removedCommits > 0 {
		o.Class("commits-removed")
	}
	if sharedBlock {
		o.Class("block-shared-between-kept-and-removed-table")
	}
	if shallowSurvivor {
		o.Class("shallow-survivor")
	}
	for k := range kinds {
		o.Class("refkind=%d", k)
	}
	return o, nil
}
