package c12

import (
	"fmt"
	"sort"
	"strings"
	"testing"
	"time"

	"github.com/google/uuid"
	"github.com/wrgl/wrgl/pkg/objects"
	"github.com/wrgl/wrgl/pkg/ref"
	"pgregory.net/rapid"

	"verifharness/internal/cli"
	"verifharness/internal/evid"
	"verifharness/internal/gen"
	"verifharness/internal/tblcheck"
)

// CLI leg: a history is built with the real commands (commit, branch delete, reset, transactions
// with staged commits), then `wrgl gc` or `wrgl prune` runs once. gc first discards the
// in-progress transactions older than transactionTTL (all of them when the TTL is 1ns, none with
// the 30-day default) and then prunes. Oracle: the refs after the command are the refs before
// minus the refs of discarded transactions; the commits left are exactly those reachable from the
// refs that are left; tables, blocks and block indices left are exactly those of the commits left;
// every table left passes the C03 validator.
type CLIOp struct {
	K string `json:"k"` // commit | txstart | txcommit | txdiscard | txfinish | delbranch | reset
	B int    `json:"b,omitempty"`
	V int    `json:"v,omitempty"`
	T int    `json:"t,omitempty"`
}

type CLICase struct {
	Ops    []CLIOp `json:"ops"`
	Expire bool    `json:"expire"` // transactionTTL = 1ns before the command
	Cmd    string  `json:"cmd"`    // gc | prune
	// TTL, when set (and Expire is false), is written to transactionTTL: long enough that no
	// transaction of the case is expired ("2h", "30m")
	TTL string `json:"ttl,omitempty"`
	// ZoneMin: the process's local time zone during the case, minutes east of UTC (0 = UTC)
	ZoneMin int `json:"zone_min,omitempty"`
	// Long > 0: that many extra commits (each with its own table) on a branch that is deleted
	// again, so that the object store holds a few hundred keys
	Long int `json:"long,omitempty"`
}

var subCLI = evid.Register("gc-cli", runCLI)

var cliBranches = []string{"main", "b1", "b2"}

func TestPropGCCLI(t *testing.T) {
	rapid.Check(t, func(t *rapid.T) {
		c := CLICase{Expire: rapid.IntRange(0, 2).Draw(t, "expire") != 0, Cmd: rapid.SampledFrom([]string{"gc", "gc", "prune"}).Draw(t, "cmd")}
		if !c.Expire {
			c.TTL = rapid.SampledFrom([]string{"", "2h", "30m"}).Draw(t, "ttl")
		}
		c.ZoneMin = rapid.SampledFrom([]int{0, 0, -480, 330, -210, 840}).Draw(t, "zone")
		if rapid.IntRange(0, 24).Draw(t, "long") == 24 {
			c.Long = rapid.SampledFrom([]int{45, 70}).Draw(t, "nlong")
		}
		n := rapid.IntRange(1, 10).Draw(t, "nops")
		ntx := 0
		if rapid.Bool().Draw(t, "txfirst") {
			// a transaction holding a commit nothing else reaches
			c.Ops = append(c.Ops, CLIOp{K: "txstart"}, CLIOp{K: "txcommit", T: 0, B: rapid.IntRange(0, 2).Draw(t, "txbranch"), V: rapid.IntRange(0, 5).Draw(t, "txvariant")})
			ntx = 1
		}
		for i := 0; i < n; i++ {
			k := rapid.IntRange(0, 99).Draw(t, "kind")
			b := rapid.IntRange(0, 2).Draw(t, "branch")
			v := rapid.IntRange(0, 5).Draw(t, "variant")
			switch {
			case k < 30:
				c.Ops = append(c.Ops, CLIOp{K: "commit", B: b, V: v})
			case k < 45:
				c.Ops = append(c.Ops, CLIOp{K: "txstart"})
				ntx++
			case k < 75 && ntx > 0:
				c.Ops = append(c.Ops, CLIOp{K: "txcommit", T: rapid.IntRange(0, ntx-1).Draw(t, "tx"), B: b, V: v})
			case k < 80 && ntx > 0:
				c.Ops = append(c.Ops, CLIOp{K: "txdiscard", T: rapid.IntRange(0, ntx-1).Draw(t, "tx")})
			case k < 85 && ntx > 0:
				c.Ops = append(c.Ops, CLIOp{K: "txfinish", T: rapid.IntRange(0, ntx-1).Draw(t, "tx")})
			case k < 92:
				c.Ops = append(c.Ops, CLIOp{K: "delbranch", B: b})
			default:
				c.Ops = append(c.Ops, CLIOp{K: "reset", B: b})
			}
		}
		subCLI.Check(t, c)
	})
}

func cliTable(v int) gen.Table {
	t := gen.Table{Cols: []string{"id", "v"}, PK: []int{0}}
	for i := 0; i < 300; i++ {
		val := "x"
		if (v == 1 || v == 3) && i == 290 {
			val = "second-block-changed"
		}
		if (v == 2 || v == 3) && i == 10 {
			val = "first-block-changed"
		}
		if v == 4 {
			val = "all-different"
		}
		if v == 5 {
			val = fmt.Sprintf("v%d", i%7)
		}
		t.Rows = append(t.Rows, []gen.Cell{gen.Cell(fmt.Sprintf("k%05d", i)), gen.Cell(val)})
	}
	return t
}

type storeState struct {
	refs    map[string][]byte
	commits map[string]*objects.Commit
	tables  map[string]*objects.Table
	blocks  map[string]bool
	blkidx  map[string]bool
}

func readState(repo *cli.Repo) (*storeState, error) {
	db, rs, closeFn, err := repo.Open()
	if err != nil {
		return nil, err
	}
	defer closeFn()
	st := &storeState{commits: map[string]*objects.Commit{}, tables: map[string]*objects.Table{}, blocks: map[string]bool{}, blkidx: map[string]bool{}}
	if st.refs, err = rs.Filter(nil, nil); err != nil {
		return nil, err
	}
	cks, err := objects.GetAllCommitKeys(db)
	if err != nil {
		return nil, err
	}
	for _, k := range cks {
		com, err := objects.GetCommit(db, k)
		if err != nil {
			return nil, fmt.Errorf("commit %x: %v", k, err)
		}
		st.commits[string(k)] = com
	}
	tks, err := objects.GetAllTableKeys(db)
	if err != nil {
		return nil, err
	}
	for _, k := range tks {
		tbl, err := objects.GetTable(db, k)
		if err != nil {
			return nil, fmt.Errorf("table %x: %v", k, err)
		}
		st.tables[string(k)] = tbl
	}
	bks, err := objects.GetAllBlockKeys(db)
	if err != nil {
		return nil, err
	}
	for _, k := range bks {
		st.blocks[string(k)] = true
	}
	iks, err := objects.GetAllBlockIndexKeys(db)
	if err != nil {
		return nil, err
	}
	for _, k := range iks {
		st.blkidx[string(k)] = true
	}
	return st, nil
}

func runCLI(c CLICase) (o evid.Outcome, err error) {
	if c.ZoneMin != 0 {
		saved := time.Local
		time.Local = time.FixedZone(fmt.Sprintf("verif%+d", c.ZoneMin), c.ZoneMin*60)
		defer func() { time.Local = saved }()
	}
	repo, err := cli.NewRepo()
	if err != nil {
		return o, fmt.Errorf("HARNESS: %v", err)
	}
	defer repo.Remove()
	if c.Long > 0 {
		// a long side history, unreachable once its branch is deleted
		for i := 0; i < c.Long; i++ {
			t := cliTable(0)
			t.Rows[i%len(t.Rows)][1] = gen.Cell(fmt.Sprintf("long-%d", i))
			fp, err := repo.WriteFile("long.csv", t.CSV(','))
			if err != nil {
				return o, fmt.Errorf("HARNESS: %v", err)
			}
			if out, err := repo.Run("commit", "longside", fp, fmt.Sprintf("long %d", i), "-p", "id"); err != nil {
				return o, fmt.Errorf("HARNESS: commit on longside: %v (%s)", err, out)
			}
			if i == c.Long/2 {
				// keep the older half reachable through a tag-like branch
				if out, err := repo.Run("branch", "create", "longkeep", "longside"); err != nil {
					return o, fmt.Errorf("HARNESS: branch create: %v (%s)", err, out)
				}
			}
		}
		if out, err := repo.Run("branch", "delete", "longside"); err != nil {
			return o, fmt.Errorf("HARNESS: branch delete: %v (%s)", err, out)
		}
	}
	files := map[int]string{}
	file := func(v int) (string, error) {
		if p, ok := files[v]; ok {
			return p, nil
		}
		p, err := repo.WriteFile(fmt.Sprintf("t%d.csv", v), cliTable(v).CSV(','))
		files[v] = p
		return p, err
	}
	var txs []string
	for i, op := range c.Ops {
		br := cliBranches[op.B%len(cliBranches)]
		switch op.K {
		case "commit", "txcommit":
			fp, err := file(op.V)
			if err != nil {
				return o, fmt.Errorf("HARNESS: %v", err)
			}
			args := []string{"commit", br, fp, fmt.Sprintf("op %d", i), "-p", "id"}
			if op.K == "txcommit" {
				if op.T >= len(txs) {
					continue
				}
				args = append(args, "--txid", txs[op.T])
			}
			// a commit may be refused (discarded/committed transaction): not this property's concern
			repo.Run(args...)
		case "txstart":
			out, err := repo.Run("transaction", "start")
			if err != nil {
				return o, fmt.Errorf("wrgl transaction start: %v (%s)", err, out)
			}
			id := strings.TrimSpace(out)
			if _, err := uuid.Parse(id); err != nil {
				return o, fmt.Errorf("HARNESS: transaction start printed %q", out)
			}
			txs = append(txs, id)
		case "txdiscard":
			if op.T < len(txs) {
				repo.Run("transaction", "discard", txs[op.T])
			}
		case "txfinish":
			if op.T < len(txs) {
				repo.Run("transaction", "commit", txs[op.T])
			}
		case "delbranch":
			repo.Run("branch", "delete", br)
		case "reset":
			db, rs, closeFn, err := repo.Open()
			if err != nil {
				return o, fmt.Errorf("HARNESS: %v", err)
			}
			var parent string
			if sum, err := ref.GetHead(rs, br); err == nil {
				if com, err := objects.GetCommit(db, sum); err == nil && len(com.Parents) > 0 {
					parent = fmt.Sprintf("%x", com.Parents[0])
				}
			}
			closeFn()
			if parent != "" {
				if out, err := repo.Run("reset", br, parent); err != nil {
					return o, fmt.Errorf("wrgl reset %s %s: %v (%s)", br, parent, err, out)
				}
			}
		}
	}
	// which transactions are still in progress
	inProgress := map[string]bool{}
	{
		_, rs, closeFn, err := repo.Open()
		if err != nil {
			return o, fmt.Errorf("HARNESS: %v", err)
		}
		for _, id := range txs {
			tx, err := rs.GetTransaction(uuid.MustParse(id))
			if err == nil && tx.Status == ref.TSInProgress {
				inProgress[id] = true
			}
		}
		closeFn()
	}
	if c.Expire {
		if out, err := repo.Run("config", "set", "transactionTTL", "1ns"); err != nil {
			return o, fmt.Errorf("HARNESS: config set transactionTTL: %v (%s)", err, out)
		}
	} else if c.TTL != "" {
		if out, err := repo.Run("config", "set", "transactionTTL", c.TTL); err != nil {
			return o, fmt.Errorf("HARNESS: config set transactionTTL: %v (%s)", err, out)
		}
	}
	before, err := readState(repo)
	if err != nil {
		return o, fmt.Errorf("HARNESS: %v", err)
	}
	if out, err := repo.Run(c.Cmd); err != nil {
		return o, fmt.Errorf("wrgl %s: %v (%s)", c.Cmd, err, out)
	}
	after, err := readState(repo)
	if err != nil {
		return o, fmt.Errorf("reading the repository after wrgl %s: %v", c.Cmd, err)
	}
	// refs
	wantRefs := map[string][]byte{}
	discardedTxRefs := 0
	for k, v := range before.refs {
		if c.Expire && c.Cmd == "gc" && strings.HasPrefix(k, "txs/") {
			parts := strings.SplitN(k, "/", 3)
			if len(parts) == 3 && inProgress[parts[1]] {
				discardedTxRefs++
				continue
			}
		}
		wantRefs[k] = v
	}
	if err := sameRefs(after.refs, wantRefs); err != nil {
		return o, fmt.Errorf("refs after wrgl %s: %v", c.Cmd, err)
	}
	// reachability over the commits that existed before
	reach := map[string]bool{}
	var stack []string
	for _, v := range after.refs {
		stack = append(stack, string(v))
	}
	for len(stack) > 0 {
		s := stack[len(stack)-1]
		stack = stack[:len(stack)-1]
		if reach[s] {
			continue
		}
		com, ok := before.commits[s]
		if !ok {
			return o, fmt.Errorf("HARNESS: ref or parent %x names no stored commit", s)
		}
		reach[s] = true
		for _, p := range com.Parents {
			stack = append(stack, string(p))
		}
	}
	removed := 0
	for s := range before.commits {
		_, still := after.commits[s]
		if reach[s] && !still {
			return o, fmt.Errorf("commit %x is reachable from a ref but wrgl %s removed it", s, c.Cmd)
		}
		if !reach[s] && still {
			return o, fmt.Errorf("commit %x is reachable from no ref after wrgl %s but is still stored", s, c.Cmd)
		}
		if !still {
			removed++
		}
	}
	keepT, keepB, keepI := map[string]bool{}, map[string]bool{}, map[string]bool{}
	for s := range reach {
		ts := string(before.commits[s].Table)
		keepT[ts] = true
		if tbl, ok := before.tables[ts]; ok {
			for _, b := range tbl.Blocks {
				keepB[string(b)] = true
			}
			for _, b := range tbl.BlockIndices {
				keepI[string(b)] = true
			}
		}
	}
	exact := func(kind string, had map[string]bool, have map[string]bool, keep map[string]bool) error {
		for k := range had {
			if keep[k] && !have[k] {
				return fmt.Errorf("%s %x is needed by a reachable commit but wrgl %s removed it", kind, k, c.Cmd)
			}
			if !keep[k] && have[k] && removed > 0 {
				return fmt.Errorf("%s %x is referenced only by removed commits but is still stored after wrgl %s", kind, k, c.Cmd)
			}
		}
		return nil
	}
	hadT, haveT := map[string]bool{}, map[string]bool{}
	for k := range before.tables {
		hadT[k] = true
	}
	for k := range after.tables {
		haveT[k] = true
	}
	if err := exact("table", hadT, haveT, keepT); err != nil {
		return o, err
	}
	if err := exact("block", before.blocks, after.blocks, keepB); err != nil {
		return o, err
	}
	if err := exact("block index", before.blkidx, after.blkidx, keepI); err != nil {
		return o, err
	}
	db, _, closeFn, err := repo.Open()
	if err != nil {
		return o, fmt.Errorf("HARNESS: %v", err)
	}
	for ts := range haveT {
		if _, err := tblcheck.Validate(db, []byte(ts)); err != nil {
			closeFn()
			return o, fmt.Errorf("table %x is not sound after wrgl %s: %v", ts, c.Cmd, err)
		}
	}
	closeFn()
	o.NonTrivial = removed > 0
	if removed > 0 {
		o.Class("commits-removed")
	}
	if discardedTxRefs > 0 {
		o.Class("expired-transaction-refs-discarded")
	}
	if len(inProgress) > 0 && !(c.Expire && c.Cmd == "gc") {
		o.Class("open-transaction-kept")
	}
	o.Class("cmd=%s", c.Cmd)
	if c.ZoneMin != 0 {
		o.Class("local-zone!=UTC")
	}
	if c.Long > 0 {
		o.Class("long-history(>=45 commits)")
	}
	return o, nil
}

func sameRefs(got, want map[string][]byte) error {
	var names []string
	for k := range want {
		names = append(names, k)
	}
	sort.Strings(names)
	for _, k := range names {
		g, ok := got[k]
		if !ok {
			return fmt.Errorf("ref %q is gone", k)
		}
		if string(g) != string(want[k]) {
			return fmt.Errorf("ref %q moved from %x to %x", k, want[k], g)
		}
	}
	for k := range got {
		if _, ok := want[k]; !ok {
			return fmt.Errorf("ref %q appeared or was not discarded", k)
		}
	}
	return nil
}
