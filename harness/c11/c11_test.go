// C11 — ancestry queries and merge-base selection agree with the commit graph.
package c11

import (
	"bytes"
	"errors"
	"fmt"
	"io"
	"testing"

	"github.com/wrgl/wrgl/pkg/ref"
	"pgregory.net/rapid"

	"verifharness/internal/evid"
	"verifharness/internal/gen"
	"verifharness/internal/model"
	"verifharness/internal/stores"
)

func TestMain(m *testing.M) { evid.Main("C11", m) }

type Case struct {
	DAG      gen.DAG `json:"dag"`
	Tuples   [][]int `json:"tuples"` // inputs of SeekCommonAncestor
	Walks    [][]int `json:"walks"`  // start sets of history walks
	AllPairs bool    `json:"all_pairs"`
	// FailRead > 0: during every single query the n-th read of a commit object fails (once); the
	// query must then report an error or still give the right answer - never a wrong one
	FailRead int `json:"fail_read,omitempty"`
}

var sub = evid.Register("ancestry", run)

func TestPropAncestry(t *testing.T) {
	rapid.Check(t, func(t *rapid.T) {
		d := gen.GenDAG(t, gen.DAGOpts{MinNodes: 1, MaxNodes: evid.Scale(12, 24), MaxParents: 3}, "dag")
		n := len(d.Nodes)
		c := Case{DAG: d, AllPairs: true}
		nt := rapid.IntRange(1, 12).Draw(t, "ntuples")
		for i := 0; i < nt; i++ {
			k := rapid.IntRange(2, 4).Draw(t, "arity")
			tu := make([]int, k)
			for j := range tu {
				tu[j] = rapid.IntRange(0, n-1).Draw(t, "node")
			}
			c.Tuples = append(c.Tuples, tu)
		}
		nw := rapid.IntRange(1, 3).Draw(t, "nwalks")
		for i := 0; i < nw; i++ {
			k := rapid.IntRange(1, 3).Draw(t, "nstarts")
			w := make([]int, k)
			for j := range w {
				w[j] = rapid.IntRange(0, n-1).Draw(t, "start")
			}
			c.Walks = append(c.Walks, w)
		}
		if rapid.IntRange(0, 3).Draw(t, "faulty") == 0 {
			c.FailRead = rapid.IntRange(1, 8).Draw(t, "failRead")
		}
		sub.Check(t, c)
	})
}

func TestReplay(t *testing.T) { evid.Replay(t) }

// TestExhaustiveSmall enumerates every DAG with up to N commits (each with at most two parents
// among earlier commits) under three timestamp regimes and checks every ordered pair for
// IsAncestorOf, every tuple of 2 and 3 commits for SeekCommonAncestor and the walk from every
// single commit.
func TestExhaustiveSmall(t *testing.T) {
	maxN := evid.Scale(4, 5)
	var rec func(d gen.DAG, n int)
	count := 0
	rec = func(d gen.DAG, n int) {
		i := len(d.Nodes)
		if i >= 1 {
			for regime := 0; regime < 3; regime++ {
				dd := gen.DAG{}
				for j, nd := range d.Nodes {
					x := gen.Node{Parents: nd.Parents}
					switch regime {
					case 0:
						x.Time = 1600000000 + int64(j)*60
					case 1:
						x.Time = 1600000000 - int64(j)*60
					default:
						x.Time = 1600000000
					}
					dd.Nodes = append(dd.Nodes, x)
				}
				c := Case{DAG: dd, AllPairs: true}
				for a := 0; a < i; a++ {
					c.Walks = append(c.Walks, []int{a})
					for b := 0; b < i; b++ {
						c.Tuples = append(c.Tuples, []int{a, b})
						for e := 0; e < i; e++ {
							c.Tuples = append(c.Tuples, []int{a, b, e})
						}
					}
				}
				sub.Check(t, c)
				count++
			}
		}
		if i == n {
			return
		}
		// parents of the next node: none, one, or two earlier nodes
		opts := [][]int{{}}
		for a := 0; a < i; a++ {
			opts = append(opts, []int{a})
			for b := a + 1; b < i; b++ {
				opts = append(opts, []int{b, a})
			}
		}
		for _, ps := range opts {
			nd := gen.DAG{Nodes: append(append([]gen.Node{}, d.Nodes...), gen.Node{Parents: ps})}
			rec(nd, n)
		}
	}
	rec(gen.DAG{}, maxN)
	t.Logf("enumerated %d (DAG, regime) cases up to %d commits", count, maxN)
}

func run(c Case) (o evid.Outcome, err error) {
	db := stores.NewMem()
	sums, err := stores.BuildHistory(db, c.DAG, nil)
	if err != nil {
		return o, fmt.Errorf("HARNESS: %v", err)
	}
	g := model.Graph{Parents: stores.GraphOf(c.DAG)}
	n := len(sums)
	idx := map[string]int{}
	for i, s := range sums {
		idx[string(s)] = i
	}
	// read-fault injection (armed per query)
	reads, hit, faultsHit := 0, false, 0
	arm := func() {
		reads, hit = 0, false
	}
	if c.FailRead > 0 {
		db.BeforeRead = func(key []byte) error {
			if bytes.HasPrefix(key, []byte("com/")) {
				reads++
				if reads == c.FailRead {
					hit = true
					faultsHit++
					return errors.New("injected read error")
				}
			}
			return nil
		}
	}
	merges, inversions := 0, 0
	for i, nd := range c.DAG.Nodes {
		if len(nd.Parents) > 1 {
			merges++
		}
		for _, p := range nd.Parents {
			if c.DAG.Nodes[p].Time >= nd.Time {
				inversions++
			}
		}
		_ = i
	}
	// (a) IsAncestorOf on every ordered pair
	if c.AllPairs {
		for a := 0; a < n; a++ {
			for b := 0; b < n; b++ {
				arm()
				got, err := ref.IsAncestorOf(db, sums[a], sums[b])
				if err != nil {
					if hit {
						continue
					}
					return o, fmt.Errorf("IsAncestorOf(c%d, c%d): %v", a, b, err)
				}
				if want := g.IsAnc(a, b); got != want {
					return o, fmt.Errorf("IsAncestorOf(c%d, c%d) = %v, graph says %v%s", a, b, got, want, faultNote(hit, c.FailRead))
				}
			}
		}
	}
	// (b) walks visit every ancestor exactly once
	for _, w := range c.Walks {
		var starts [][]byte
		for _, s := range w {
			starts = append(starts, sums[s])
		}
		arm()
		q, err := ref.NewCommitsQueue(db, starts)
		if err != nil {
			if hit {
				continue
			}
			return o, fmt.Errorf("NewCommitsQueue%v: %v", w, err)
		}
		visited := map[int]int{}
		aborted := false
		for steps := 0; ; steps++ {
			sum, _, err := q.PopInsertParents()
			if errors.Is(err, io.EOF) {
				break
			}
			if err != nil {
				if hit {
					aborted = true
					break
				}
				return o, fmt.Errorf("walk from %v: %v", w, err)
			}
			i, ok := idx[string(sum)]
			if !ok {
				return o, fmt.Errorf("walk from %v yielded an unknown commit %x", w, sum)
			}
			visited[i]++
			if steps > 4*n+8 {
				return o, fmt.Errorf("walk from %v does not terminate (%d steps for %d commits)", w, steps, n)
			}
		}
		if aborted {
			continue
		}
		want := g.Anc(w...)
		for i := range want {
			if visited[i] != 1 {
				return o, fmt.Errorf("walk from %v visited ancestor c%d %d times and ended without an error%s", w, i, visited[i], faultNote(hit, c.FailRead))
			}
		}
		for i := range visited {
			if !want[i] {
				return o, fmt.Errorf("walk from %v visited c%d which is not an ancestor", w, i)
			}
		}
	}
	// (c) merge base
	nontrivialTuples := 0
	for _, tu := range c.Tuples {
		var in [][]byte
		for _, s := range tu {
			in = append(in, sums[s])
		}
		common := g.Anc(tu[0])
		for _, s := range tu[1:] {
			a := g.Anc(s)
			for k := range common {
				if !a[k] {
					delete(common, k)
				}
			}
		}
		arm()
		base, err := ref.SeekCommonAncestor(db, in...)
		if err != nil && hit {
			continue
		}
		if len(common) == 0 {
			if err == nil {
				return o, fmt.Errorf("SeekCommonAncestor%v = c%d although the commits share no ancestor", tu, idx[string(base)])
			}
			continue
		}
		if err != nil {
			return o, fmt.Errorf("SeekCommonAncestor%v: %v, although common ancestors exist (%d)%s", tu, err, len(common), faultNote(hit, c.FailRead))
		}
		bi, ok := idx[string(base)]
		if !ok {
			return o, fmt.Errorf("SeekCommonAncestor%v returned an unknown commit", tu)
		}
		if !common[bi] {
			return o, fmt.Errorf("SeekCommonAncestor%v = c%d which is not an ancestor-or-self of every input", tu, bi)
		}
		// if an input is an ancestor-or-self of all the others, it is the base
		for _, s := range tu {
			if common[s] && bi != s {
				return o, fmt.Errorf("SeekCommonAncestor%v = c%d, but input c%d is an ancestor of all the others", tu, bi, s)
			}
		}
		distinct := map[int]bool{}
		for _, s := range tu {
			distinct[s] = true
		}
		if len(distinct) == len(tu) {
			nontrivialTuples++
		}
	}
	o.NonTrivial = nontrivialTuples > 0 && (merges > 0 || inversions > 0)
	if c.FailRead > 0 {
		o.Class("read-fault-family")
		evid.Count("queries in which the injected read error was hit", faultsHit)
	}
	o.Class("nodes=%s", sizeBucket(n))
	if merges > 0 {
		o.Class("has-merge")
	}
	if inversions > 0 {
		o.Class("time-inversion")
	}
	return o, nil
}

func faultNote(hit bool, n int) string {
	if hit {
		return fmt.Sprintf(" (commit read #%d of this query failed and the failure was not reported)", n)
	}
	return ""
}

func sizeBucket(n int) string {
	switch {
	case n <= 3:
		return "1-3"
	case n <= 5:
		return "4-5"
	case n <= 12:
		return "6-12"
	default:
		return ">12"
	}
}
