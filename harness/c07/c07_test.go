// C07 — commits sent through packfiles are reproduced exactly at the destination.
package c07

import (
	"bytes"
	"fmt"
	"io"
	"strings"
	"testing"

	"github.com/go-logr/logr"
	apiutils "github.com/wrgl/wrgl/pkg/api/utils"
	"github.com/wrgl/wrgl/pkg/diff"
	"github.com/wrgl/wrgl/pkg/encoding/packfile"
	"github.com/wrgl/wrgl/pkg/objects"
	"pgregory.net/rapid"

	"verifharness/internal/evid"
	"verifharness/internal/gen"
	"verifharness/internal/ingestx"
	"verifharness/internal/model"
	"verifharness/internal/stores"
	"verifharness/internal/tblcheck"
	"verifharness/internal/xfer"
)

func TestMain(m *testing.M) { evid.Main("C07", m) }

type Case struct {
	DAG     gen.DAG `json:"dag"`
	Wants   []int   `json:"wants"`
	Commons []int   `json:"commons"`
	// NoTable: commits of the send list whose table is not selected (depth-limited transfer)
	NoTable []int  `json:"no_table"`
	MaxSize uint64 `json:"max_size"`
	// Prepop: object keys of the source (by rank in sorted order, modulo) copied to the
	// destination beforehand, besides the common history
	Prepop []int `json:"prepop"`
}

var sub = evid.Register("transfer", run)

func TestPropTransfer(t *testing.T) {
	rapid.Check(t, func(t *rapid.T) {
		d := gen.GenDAG(t, gen.DAGOpts{MinNodes: 1, MaxNodes: evid.Scale(10, 18), MaxParents: 3, Tables: xfer.PoolSize}, "dag")
		n := len(d.Nodes)
		c := Case{DAG: d}
		for i, k := 0, rapid.IntRange(1, 2).Draw(t, "nwants"); i < k; i++ {
			c.Wants = append(c.Wants, n-1-rapid.IntRange(0, n-1).Draw(t, "want"))
		}
		for i, k := 0, rapid.IntRange(0, 2).Draw(t, "ncommons"); i < k; i++ {
			c.Commons = append(c.Commons, rapid.IntRange(0, n-1).Draw(t, "common"))
		}
		for i, k := 0, rapid.IntRange(0, 2).Draw(t, "nnotable"); i < k; i++ {
			c.NoTable = append(c.NoTable, rapid.IntRange(0, n-1).Draw(t, "notable"))
		}
		c.MaxSize = rapid.SampledFrom([]uint64{1, 60, 400, 3000, 0, 1 << 20}).Draw(t, "maxsize")
		for i, k := 0, rapid.IntRange(0, 6).Draw(t, "nprepop"); i < k; i++ {
			c.Prepop = append(c.Prepop, rapid.IntRange(0, 1000).Draw(t, "prepop"))
		}
		sub.Check(t, c)
	})
}

func TestReplay(t *testing.T) { evid.Replay(t) }

func copyKey(src, dst *stores.Mem, k string) {
	if v, ok := src.Raw(k); ok {
		dst.Set([]byte(k), v)
	}
}

// copyTable copies a table with its blocks and derived objects.
func copyTable(src, dst *stores.Mem, sum []byte) {
	tbl, err := objects.GetTable(src, sum)
	if err != nil {
		return
	}
	for _, b := range tbl.Blocks {
		copyKey(src, dst, "blk/"+string(b))
	}
	for _, b := range tbl.BlockIndices {
		copyKey(src, dst, "blkidx/"+string(b))
	}
	for _, p := range []string{"tbl/", "tblidx/", "tblsum/"} {
		copyKey(src, dst, p+string(sum))
	}
}

func run(c Case) (o evid.Outcome, err error) {
	src := stores.NewMem()
	pool, err := xfer.Pool(src)
	if err != nil {
		return o, fmt.Errorf("HARNESS: %v", err)
	}
	n := len(c.DAG.Nodes)
	tableOf := make([][]byte, n)
	d := gen.DAG{}
	for i, nd := range c.DAG.Nodes {
		tableOf[i] = pool[nd.Table%xfer.PoolSize]
		x := nd
		x.Table = i
		d.Nodes = append(d.Nodes, x)
	}
	sums, err := stores.BuildHistory(src, d, tableOf)
	if err != nil {
		return o, fmt.Errorf("HARNESS: %v", err)
	}
	g := model.Graph{Parents: stores.GraphOf(c.DAG)}
	ancCommons := g.Anc(c.Commons...)
	ancWants := g.Anc(c.Wants...)
	// send list: ancestors of the wants that the other side lacks, parents first (creation order
	// is a topological order)
	var toSend []*objects.Commit
	var sendIdx []int
	noTable := map[int]bool{}
	for _, i := range c.NoTable {
		noTable[i] = true
	}
	tables := map[string]struct{}{}
	var expected [][]byte
	for i := 0; i < n; i++ {
		if ancWants[i] && !ancCommons[i] {
			com, err := objects.GetCommit(src, sums[i])
			if err != nil {
				return o, fmt.Errorf("HARNESS: %v", err)
			}
			toSend = append(toSend, com)
			sendIdx = append(sendIdx, i)
			expected = append(expected, sums[i])
			if !noTable[i] {
				tables[string(tableOf[i])] = struct{}{}
			}
		}
	}
	// destination: the common history complete (commits, tables, blocks), plus a random subset of
	// the other objects
	dst := stores.NewMem()
	var commonSums [][]byte
	for _, cm := range c.Commons {
		commonSums = append(commonSums, sums[cm])
	}
	for i := range ancCommons {
		copyKey(src, dst, "com/"+string(sums[i]))
		copyTable(src, dst, tableOf[i])
	}
	keys := src.Keys()
	prepop := 0
	for _, p := range c.Prepop {
		k := keys[p%len(keys)]
		if strings.HasPrefix(k, "com/") {
			continue // a commit without its parents would be an inconsistent destination
		}
		if strings.HasPrefix(k, "tbl/") {
			copyTable(src, dst, []byte(k[4:]))
		} else {
			copyKey(src, dst, k)
		}
		prepop++
	}
	dstBefore := dst.Snapshot()

	res, err := xfer.Send(src, dst, toSend, tables, commonSums, c.MaxSize, expected)
	if err != nil {
		return o, err
	}
	if !res.Done && len(toSend) > 0 {
		return o, fmt.Errorf("all packfiles delivered but the receiver does not report completion (%d of %d commits)", len(res.Received), len(toSend))
	}
	if len(res.Received) != len(toSend) {
		return o, fmt.Errorf("%d commits sent, %d received", len(toSend), len(res.Received))
	}
	for i := range toSend {
		if !bytes.Equal(res.Received[i], sums[sendIdx[i]]) {
			return o, fmt.Errorf("commit #%d received as %x, sent %x", i, res.Received[i], sums[sendIdx[i]])
		}
	}
	// byte-identical objects under identical identifiers
	same := func(k string) error {
		a, ok := src.Raw(k)
		if !ok {
			return fmt.Errorf("HARNESS: source lacks %q", k[:4])
		}
		b, ok := dst.Raw(k)
		if !ok {
			return fmt.Errorf("destination lacks %s%x", k[:strings.IndexByte(k, '/')+1], k[strings.IndexByte(k, '/')+1:])
		}
		if !bytes.Equal(a, b) {
			return fmt.Errorf("object %s%x differs between source and destination", k[:strings.IndexByte(k, '/')+1], k[strings.IndexByte(k, '/')+1:])
		}
		return nil
	}
	for _, i := range sendIdx {
		if err := same("com/" + string(sums[i])); err != nil {
			return o, err
		}
	}
	multiObj := false
	for ts := range tables {
		if err := same("tbl/" + ts); err != nil {
			return o, err
		}
		stbl, _ := objects.GetTable(src, []byte(ts))
		for _, b := range stbl.Blocks {
			if err := same("blk/" + string(b)); err != nil {
				return o, err
			}
		}
		if len(stbl.Blocks) > 1 {
			multiObj = true
		}
		for _, b := range stbl.BlockIndices {
			if err := same("blkidx/" + string(b)); err != nil {
				return o, err
			}
		}
		if err := same("tblidx/" + ts); err != nil {
			return o, err
		}
		if _, ok := dst.Raw("tblsum/" + ts); !ok {
			return o, fmt.Errorf("received table %x has no profile", ts)
		}
		if _, err := tblcheck.Validate(dst, []byte(ts)); err != nil {
			return o, fmt.Errorf("received table %x is not sound (C03): %v", ts, err)
		}
		// usable for diff: empty diff against the original living in the other store
		dtbl, _ := objects.GetTable(dst, []byte(ts))
		sidx, _ := objects.GetTableIndex(src, []byte(ts))
		didx, _ := objects.GetTableIndex(dst, []byte(ts))
		errCh := make(chan error, 4)
		ch, _ := diff.DiffTables(dst, src, dtbl, stbl, didx, sidx, errCh, logr.Discard())
		cnt := 0
		for range ch {
			cnt++
		}
		select {
		case e := <-errCh:
			return o, fmt.Errorf("diff of received table against the original: %v", e)
		default:
		}
		if cnt != 0 {
			return o, fmt.Errorf("received table %x differs from the original in %d rows", ts, cnt)
		}
	}
	// packfile framing
	if res.Packfiles < 1 {
		return o, fmt.Errorf("no packfile was produced")
	}
	// nothing the destination already had was changed
	for k, v := range dstBefore {
		if b, ok := dst.Raw(k); !ok || !bytes.Equal(b, v) {
			return o, fmt.Errorf("pre-existing object %q was changed by the transfer", k[:4])
		}
	}
	o.NonTrivial = len(toSend) >= 2 && multiObj && (res.Packfiles >= 2 || prepop > 0 || len(c.Commons) > 0)
	o.Class("packfiles=%s", bucket(res.Packfiles))
	o.Class("commits=%s", bucket(len(toSend)))
	if len(c.Commons) > 0 {
		o.Class("has-commons")
	}
	if prepop > 0 {
		o.Class("prepopulated")
	}
	if len(tables) < len(toSend) {
		o.Class("some-commits-without-table")
	}
	return o, nil
}

func bucket(n int) string {
	switch {
	case n == 0:
		return "0"
	case n == 1:
		return "1"
	case n <= 5:
		return "2-5"
	default:
		return ">5"
	}
}

// ---- negative family: objects in an order the receiver must refuse -----------------------------

type NegCase struct {
	Kind string `json:"kind"` // commit-before-parent | table-before-block | truncated
	Tbl  int    `json:"tbl"`
	// truncated: the packfile of a complete one-commit transfer is cut strictly inside its
	// Obj-th object (mod number of objects), Off per mille into that object
	Obj int `json:"obj,omitempty"`
	Off int `json:"off,omitempty"`
}

var subNeg = evid.Register("out-of-order", runNeg)

func TestPropOutOfOrder(t *testing.T) {
	rapid.Check(t, func(t *rapid.T) {
		// pool tables 0..4 and 6 have two blocks (5 has one: it cannot arrive "before one of its blocks")
		c := NegCase{Kind: rapid.SampledFrom([]string{"commit-before-parent", "table-before-block", "truncated", "truncated"}).Draw(t, "kind"), Tbl: rapid.SampledFrom([]int{0, 1, 2, 3, 4, 6}).Draw(t, "tbl")}
		if c.Kind == "truncated" {
			c.Obj = rapid.IntRange(0, 5).Draw(t, "obj")
			c.Off = rapid.SampledFrom([]int{0, 1, 500, 999, 1000}).Draw(t, "off")
		}
		subNeg.Check(t, c)
	})
}

func runNeg(c NegCase) (o evid.Outcome, err error) {
	src := stores.NewMem()
	pool, err := xfer.Pool(src)
	if err != nil {
		return o, fmt.Errorf("HARNESS: %v", err)
	}
	d := gen.DAG{Nodes: []gen.Node{{Parents: []int{}, Time: 1600000000, Table: c.Tbl}, {Parents: []int{0}, Time: 1600000060, Table: c.Tbl}}}
	tabs := [][]byte{pool[c.Tbl], pool[c.Tbl]}
	d.Nodes[0].Table, d.Nodes[1].Table = 0, 1
	sums, err := stores.BuildHistory(src, d, tabs)
	if err != nil {
		return o, fmt.Errorf("HARNESS: %v", err)
	}
	dst := stores.NewMem()
	var buf bytes.Buffer
	w, _ := packfile.NewPackfileWriter(&buf)
	var key string
	switch c.Kind {
	case "truncated":
		// blocks, table, root commit - a complete, valid transfer - cut inside one object
		tbl, _ := objects.GetTable(src, pool[c.Tbl])
		bounds := []int{buf.Len()}
		for _, bs := range tbl.Blocks {
			bb, _ := src.Raw("blk/" + string(bs))
			w.WriteObject(packfile.ObjectBlock, bb)
			bounds = append(bounds, buf.Len())
		}
		tb, _ := src.Raw("tbl/" + string(pool[c.Tbl]))
		w.WriteObject(packfile.ObjectTable, tb)
		bounds = append(bounds, buf.Len())
		cb, _ := src.Raw("com/" + string(sums[0]))
		w.WriteObject(packfile.ObjectCommit, cb)
		bounds = append(bounds, buf.Len())
		i := c.Obj % (len(bounds) - 1)
		lo, hi := bounds[i]+1, bounds[i+1]-1 // strictly inside object i
		cut := lo + (hi-lo)*c.Off/1000
		recv := apiutils.NewObjectReceiver(dst, [][]byte{sums[0]}, logr.Discard())
		pr, err := packfile.NewPackfileReader(io.NopCloser(bytes.NewReader(buf.Bytes()[:cut])))
		if err != nil {
			return o, fmt.Errorf("HARNESS: %v", err)
		}
		done, rerr := recv.Receive(pr, nil)
		o.NonTrivial = true
		o.Class("kind=%s", c.Kind)
		if rerr == nil {
			return o, fmt.Errorf("truncated: a packfile of %d bytes cut at byte %d (inside object %d of %d) was received without an error (done=%v)", buf.Len(), cut, i, len(bounds)-1, done)
		}
		if _, ok := dst.Raw("com/" + string(sums[0])); ok && i < len(bounds)-2 {
			return o, fmt.Errorf("truncated: the commit is stored although the packfile ended inside object %d", i)
		}
		return o, nil
	case "commit-before-parent":
		b, _ := src.Raw("com/" + string(sums[1]))
		w.WriteObject(packfile.ObjectCommit, b)
		key = "com/" + string(sums[1])
	default:
		// the table arrives although one of its blocks never did
		tbl, _ := objects.GetTable(src, pool[c.Tbl])
		bb, _ := src.Raw("blk/" + string(tbl.Blocks[0]))
		w.WriteObject(packfile.ObjectBlock, bb)
		tb, _ := src.Raw("tbl/" + string(pool[c.Tbl]))
		w.WriteObject(packfile.ObjectTable, tb)
		key = "tbl/" + string(pool[c.Tbl])
	}
	recv := apiutils.NewObjectReceiver(dst, [][]byte{sums[1]}, logr.Discard())
	pr, err := packfile.NewPackfileReader(io.NopCloser(bytes.NewReader(buf.Bytes())))
	if err != nil {
		return o, fmt.Errorf("HARNESS: %v", err)
	}
	_, rerr := recv.Receive(pr, nil)
	o.NonTrivial = true
	o.Class("kind=%s", c.Kind)
	if rerr == nil {
		return o, fmt.Errorf("%s: the receiver accepted the packfile", c.Kind)
	}
	if _, ok := dst.Raw(key); ok {
		return o, fmt.Errorf("%s: Receive returned %q but the rejected object is stored (%s...)", c.Kind, rerr, key[:4])
	}
	return o, nil
}

// ---- wide rows: blocks whose decoded size is far above what any pool table has ---------------

// WideCase: one commit whose table has Rows rows of Cols cells of CellLen bytes each.
type WideCase struct {
	Rows    int    `json:"rows"`
	Cols    int    `json:"cols"`
	CellLen int    `json:"cell_len"`
	MaxSize uint64 `json:"max_size"`
}

var subWide = evid.Register("wide", runWide)

func TestPropWideBlocks(t *testing.T) {
	rapid.Check(t, func(t *rapid.T) {
		subWide.Check(t, WideCase{
			Rows:    rapid.SampledFrom([]int{1, 100, 255, 256}).Draw(t, "rows"),
			Cols:    rapid.IntRange(1, 4).Draw(t, "cols"),
			CellLen: rapid.SampledFrom([]int{1000, 23000, 40000, 65535}).Draw(t, "celllen"),
			MaxSize: rapid.SampledFrom([]uint64{0, 1, 1 << 20}).Draw(t, "maxsize"),
		})
	})
}

func runWide(c WideCase) (o evid.Outcome, err error) {
	src, dst := stores.NewMem(), stores.NewMem()
	tb := gen.Table{Cols: []string{"id"}, PK: []int{0}}
	for j := 0; j < c.Cols; j++ {
		tb.Cols = append(tb.Cols, fmt.Sprintf("c%d", j))
	}
	for i := 0; i < c.Rows; i++ {
		row := []gen.Cell{gen.Cell(fmt.Sprintf("k%05d", i))}
		for j := 0; j < c.Cols; j++ {
			// cheap to build, not constant: a short varying head and a long run
			cell := append([]byte(fmt.Sprintf("%d/%d:", i, j)), bytes.Repeat([]byte{byte('a' + (i+j)%26)}, c.CellLen)...)
			row = append(row, gen.Cell(cell[:c.CellLen]))
		}
		tb.Rows = append(tb.Rows, row)
	}
	ts, err := ingestx.Simple(src, tb)
	if err != nil {
		return o, fmt.Errorf("HARNESS: ingest of a table with %d rows of %d cells of %d bytes: %v", c.Rows, c.Cols, c.CellLen, err)
	}
	d := gen.DAG{Nodes: []gen.Node{{Parents: []int{}, Time: 1600000000, Table: 0}}}
	sums, err := stores.BuildHistory(src, d, [][]byte{ts})
	if err != nil {
		return o, fmt.Errorf("HARNESS: %v", err)
	}
	com, err := objects.GetCommit(src, sums[0])
	if err != nil {
		return o, fmt.Errorf("HARNESS: %v", err)
	}
	what := fmt.Sprintf("a table of %d rows x %d cells of %d bytes (blocks of up to %d MB)", c.Rows, c.Cols, c.CellLen, c.Rows*c.Cols*c.CellLen>>20)
	if _, err := xfer.Send(src, dst, []*objects.Commit{com}, map[string]struct{}{string(ts): {}}, nil, c.MaxSize, [][]byte{sums[0]}); err != nil {
		return o, fmt.Errorf("%s, valid at the source, does not arrive: %v", what, err)
	}
	for _, k := range src.Keys() {
		want, _ := src.Raw(k)
		got, ok := dst.Raw(k)
		if !ok {
			return o, fmt.Errorf("%s: object %s is missing at the destination", what, keyName(k))
		}
		if !bytes.Equal(got, want) {
			return o, fmt.Errorf("%s: object %s differs at the destination", what, keyName(k))
		}
	}
	if _, err := tblcheck.Validate(dst, ts); err != nil {
		return o, fmt.Errorf("%s: table at the destination is not sound: %v", what, err)
	}
	o.NonTrivial = c.Rows*c.Cols*c.CellLen > 1<<20
	if c.Rows*c.Cols*c.CellLen > 16<<20 {
		o.Class("block>16MB")
	}
	return o, nil
}

func keyName(k string) string {
	i := strings.IndexByte(k, '/')
	if i < 0 {
		return fmt.Sprintf("%x", k)
	}
	return fmt.Sprintf("%s%x", k[:i+1], k[i+1:])
}
