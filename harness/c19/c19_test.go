// C19 — external sort emits every distinct key once, in key order, at any memory limit.
package c19

import (
	"context"
	"fmt"
	"os"
	"path/filepath"
	"sort"
	"strings"
	"testing"

	"github.com/wrgl/wrgl/pkg/sorter"
	"pgregory.net/rapid"

	"verifharness/internal/evid"
	"verifharness/internal/gen"
	"verifharness/internal/model"
)

func TestMain(m *testing.M) { evid.Main("C19", m) }

type Case struct {
	Table   gen.Table `json:"table"`
	Spills  int       `json:"spills"`          // 0 none, k>0 about k runs, -1 every row spills
	Reuse   bool      `json:"reuse,omitempty"` // the rows output comes from the first sorter again (Close, Reset, refill)
	Removed []int     `json:"removed"`         // column indices removed at output time (never key columns)
	// SetCols: the ingest path announces the header with SetColumns (which also attaches the
	// profiler, so no columns may be removed); the merge path (RowCollector) never does.
	SetCols bool `json:"setcols"`
}

var sub = evid.Register("sorter", run)

func genCase(t *rapid.T) Case {
	tb := gen.GenTable(t, gen.TableOpts{MaxCols: 5, MaxRows: evid.Scale(600, 800), Boundary: true, MaxBig: 1}, "t")
	c := Case{Table: tb}
	c.Spills = rapid.SampledFrom([]int{0, 1, 2, 2, 3, 5, -1}).Draw(t, "spills")
	c.Reuse = rapid.IntRange(0, 3).Draw(t, "reuse") == 0
	isKey := map[int]bool{}
	for _, k := range tb.PK {
		isKey[k] = true
	}
	c.Removed = []int{}
	if rapid.IntRange(0, 2).Draw(t, "remove") == 0 {
		for i := range tb.Cols {
			if !isKey[i] && rapid.Bool().Draw(t, "rm") {
				c.Removed = append(c.Removed, i)
			}
		}
		if len(c.Removed) == len(tb.Cols) { // keep at least one column
			c.Removed = c.Removed[1:]
		}
	}
	c.SetCols = len(c.Removed) == 0 && rapid.Bool().Draw(t, "setcols")
	return c
}

func TestPropSorter(t *testing.T) {
	rapid.Check(t, func(t *rapid.T) { sub.Check(t, genCase(t)) })
}

func TestReplay(t *testing.T) { evid.Replay(t) }

func chunkFiles() []string {
	m, _ := filepath.Glob(filepath.Join(evid.TempDir(), "sorted_chunk_*"))
	return m
}

func newSorter(c Case, rows [][]string) (*sorter.Sorter, error) {
	total := uint64(0)
	for _, r := range rows {
		total += 4
		for _, s := range r {
			total += uint64(len(s)) + 2
		}
	}
	runSize := total + 1000
	switch {
	case c.Spills < 0:
		runSize = 1
	case c.Spills > 0:
		runSize = total/uint64(c.Spills) + 1
	}
	s, err := sorter.NewSorter(sorter.WithRunSize(runSize))
	if err != nil {
		return nil, fmt.Errorf("HARNESS: NewSorter: %v", err)
	}
	return s, fill(s, c, rows)
}

// fill feeds the case's rows to a fresh or Reset sorter.
func fill(s *sorter.Sorter, c Case, rows [][]string) error {
	if c.SetCols && len(c.Removed) == 0 {
		s.SetColumns(c.Table.Cols)
	}
	s.PK = c.Table.PKu32()
	for i, r := range rows {
		if err := s.AddRow(r); err != nil {
			return fmt.Errorf("AddRow #%d: %v", i, err)
		}
	}
	return nil
}

func strip(row []string, removed map[int]struct{}) []string {
	out := make([]string, 0, len(row))
	for i, s := range row {
		if _, ok := removed[i]; !ok {
			out = append(out, s)
		}
	}
	return out
}

func run(c Case) (o evid.Outcome, err error) {
	rows := gen.Rows(c.Table.Rows)
	pk := c.Table.PK
	var removed map[int]struct{}
	if len(c.Removed) > 0 {
		removed = map[int]struct{}{}
		for _, r := range c.Removed {
			removed[r] = struct{}{}
		}
	}
	// key columns' positions after the removal
	newPK := make([]int, len(pk))
	for i, k := range pk {
		n := k
		for r := range removed {
			if r < k {
				n--
			}
		}
		newPK[i] = n
	}
	if before := chunkFiles(); len(before) != 0 {
		for _, f := range before {
			os.Remove(f)
		}
	}

	// ---- blocks output
	var s1 *sorter.Sorter
	if c.Reuse {
		// the sorter has sorted (and spilled) a wider table before: Close, Reset, refill
		wide := make([][]string, len(rows))
		for i, r := range rows {
			wide[i] = append(append([]string{}, r...), fmt.Sprintf("extra-%d", i), "x")
		}
		cw := c
		cw.SetCols = false
		s1, err = newSorter(cw, wide)
		if err != nil {
			return o, err
		}
		werr := make(chan error, 4)
		for range s1.SortedBlocks(context.Background(), nil, werr) {
		}
		if err := s1.Close(); err != nil {
			return o, fmt.Errorf("Close: %v", err)
		}
		s1.Reset()
		if err := fill(s1, c, rows); err != nil {
			return o, err
		}
	} else {
		s1, err = newSorter(c, rows)
		if err != nil {
			return o, err
		}
	}
	spills := len(chunkFiles())
	errCh := make(chan error, 4)
	var outB [][]string
	bi := 0
	for b := range s1.SortedBlocks(context.Background(), removed, errCh) {
		dec, ok := model.DecodeBlock(b.Block)
		if !ok {
			return o, fmt.Errorf("SortedBlocks: block %d is not a well-formed block encoding", bi)
		}
		if b.Offset != bi {
			return o, fmt.Errorf("SortedBlocks: block #%d has Offset %d", bi, b.Offset)
		}
		if b.RowsCount != len(dec) {
			return o, fmt.Errorf("SortedBlocks: block %d RowsCount=%d but holds %d rows", bi, b.RowsCount, len(dec))
		}
		if len(dec) == 0 || len(dec) > 255 {
			return o, fmt.Errorf("SortedBlocks: block %d has %d rows", bi, len(dec))
		}
		if bi > 0 && len(outB)%255 != 0 {
			return o, fmt.Errorf("SortedBlocks: a block before #%d was not full (%d rows so far)", bi, len(outB))
		}
		if len(pk) > 0 || len(removed) == 0 {
			if want := model.KeyOf(dec[0], newPK); !model.RowsEqual(b.PK, want) {
				return o, fmt.Errorf("SortedBlocks: block %d PK=%q but its first row has key %q", bi, b.PK, want)
			}
		}
		outB = append(outB, dec...)
		bi++
	}
	select {
	case e := <-errCh:
		return o, fmt.Errorf("SortedBlocks reported error: %v", e)
	default:
	}
	if err := s1.Close(); err != nil {
		return o, fmt.Errorf("Close: %v", err)
	}
	if left := chunkFiles(); len(left) != 0 {
		return o, fmt.Errorf("after Close %d spill files remain: %v", len(left), left)
	}

	// ---- rows output: a second sorter, or the first one again after Reset (the way the doctor's
	// resolver and re-ingest reuse one sorter for table after table)
	var s2 *sorter.Sorter
	if c.Reuse {
		s1.Reset()
		s2 = s1
		if err := fill(s2, c, rows); err != nil {
			return o, err
		}
		o.Class("sorter-reused-after-close")
	} else {
		s2, err = newSorter(c, rows)
		if err != nil {
			return o, err
		}
	}
	var outR [][]string
	ri := 0
	for r := range s2.SortedRows(context.Background(), removed, errCh) {
		if r.Offset != ri {
			return o, fmt.Errorf("SortedRows: chunk #%d has Offset %d", ri, r.Offset)
		}
		if len(r.Rows) == 0 || len(r.Rows) > 255 {
			return o, fmt.Errorf("SortedRows: chunk %d has %d rows", ri, len(r.Rows))
		}
		if ri > 0 && len(outR)%255 != 0 {
			return o, fmt.Errorf("SortedRows: a chunk before #%d was not full", ri)
		}
		for _, row := range r.Rows {
			cp := make([]string, len(row))
			copy(cp, row)
			outR = append(outR, cp)
		}
		ri++
	}
	select {
	case e := <-errCh:
		return o, fmt.Errorf("SortedRows reported error: %v", e)
	default:
	}
	if err := s2.Close(); err != nil {
		return o, fmt.Errorf("Close: %v", err)
	}
	if left := chunkFiles(); len(left) != 0 {
		return o, fmt.Errorf("after Close %d spill files remain: %v", len(left), left)
	}

	// ---- oracle
	groups := model.Canon(rows, pk)
	check := func(name string, out [][]string) error {
		if len(pk) == 0 && len(removed) > 0 {
			// keyless with removed columns: the statement leaves open whether identity is the full
			// or the remaining row; require the set of remaining rows, in ascending order.
			want := map[string]bool{}
			for _, r := range rows {
				want[model.TupleID(strip(r, removed))] = true
			}
			got := map[string]bool{}
			for i, r := range out {
				got[model.TupleID(r)] = true
				if !want[model.TupleID(r)] {
					return fmt.Errorf("%s: row %d %q is not an input row", name, i, r)
				}
			}
			if len(got) != len(want) {
				return fmt.Errorf("%s: %d distinct rows out, %d distinct rows in", name, len(got), len(want))
			}
			if len(out) > len(groups) {
				return fmt.Errorf("%s: %d rows out for %d distinct input rows", name, len(out), len(groups))
			}
			return nil
		}
		if len(out) != len(groups) {
			return fmt.Errorf("%s: %d rows out, %d distinct keys in (first keys out: %s)", name, len(out), len(groups), headKeys(out, newPK))
		}
		for i, g := range groups {
			k := model.KeyOf(out[i], newPK)
			wantKey := g.Key
			if len(pk) == 0 {
				wantKey = strip(g.Key, removed)
			}
			if !model.RowsEqual(k, wantKey) {
				return fmt.Errorf("%s: row %d has key %q, expected %q (keys out: %s)", name, i, k, wantKey, headKeys(out, newPK))
			}
			found := false
			for _, in := range g.Rows {
				if model.RowsEqual(strip(in, removed), out[i]) {
					found = true
					break
				}
			}
			if !found {
				return fmt.Errorf("%s: row %d %q equals no input row with key %q (minus removed columns)", name, i, out[i], g.Key)
			}
		}
		return nil
	}
	if err := check("SortedBlocks", outB); err != nil {
		return o, err
	}
	if err := check("SortedRows", outR); err != nil {
		return o, err
	}
	if len(pk) > 0 || len(removed) == 0 {
		// both outputs hold the same keys; with duplicate keys either representative is allowed
		for i := range outB {
			if !model.RowsEqual(model.KeyOf(outB[i], newPK), model.KeyOf(outR[i], newPK)) {
				return o, fmt.Errorf("outputs differ at row %d: blocks %q rows %q", i, outB[i], outR[i])
			}
		}
	}

	dups := len(groups) < len(rows)
	o.NonTrivial = spills >= 1 && len(rows) > 0 && (len(pk) > 1 || dups || len(pk) == 0 || len(removed) > 0)
	o.Class("spills=%s", bucket(spills))
	o.Class("pk=%d", len(pk))
	o.Class("setcols=%v", c.SetCols)
	if dups {
		o.Class("duplicate-keys")
	}
	if len(removed) > 0 {
		before := false
		for r := range removed {
			for _, k := range pk {
				if r < k {
					before = true
				}
			}
		}
		if before {
			o.Class("removed-before-key")
		} else {
			o.Class("removed-after-key")
		}
	}
	if len(groups) > 255 {
		o.Class("multi-block")
	}
	return o, nil
}

func bucket(n int) string {
	switch {
	case n == 0:
		return "0"
	case n == 1:
		return "1"
	case n <= 5:
		return "2-5"
	default:
		return ">5"
	}
}

func headKeys(out [][]string, pk []int) string {
	var ks []string
	for i, r := range out {
		if i >= 8 {
			ks = append(ks, "...")
			break
		}
		ks = append(ks, fmt.Sprintf("%q", model.KeyOf(r, pk)))
	}
	sort.Strings(nil)
	return strings.Join(ks, " ")
}
