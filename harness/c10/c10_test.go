// C10 — without force, a ref only ever moves forward along its own history.
package c10

import (
	"bytes"
	"fmt"
	"strings"
	"testing"

	"github.com/wrgl/wrgl/pkg/objects"
	"github.com/wrgl/wrgl/pkg/ref"
	"pgregory.net/rapid"

	"verifharness/internal/evid"
	"verifharness/internal/syncx"
)

func TestMain(m *testing.M) { evid.Main("C10", m) }

type Case struct {
	T        syncx.Topology `json:"t"`
	Op       string         `json:"op"`        // fetch | push | pull | merge
	Force    bool           `json:"force"`     // global --force
	RefForce []bool         `json:"ref_force"` // per refspec '+'
	FF       string         `json:"ff"`        // "", "--ff", "--no-ff", "--ff-only" (merge / pull)
	// PushDst (push): per ref, the index of the ref whose name is the destination of the refspec
	// (-1 or absent: same name) - e.g. a branch pushed onto an existing remote tag
	PushDst []int `json:"push_dst,omitempty"`
	// Mirror (fetch): per ref, a second, never '+'-forced refspec for the same remote ref onto
	// refs/mirror/<n>, listed right after the first one
	Mirror []bool `json:"mirror,omitempty"`
	// Peel (merge): the branch to merge into is written with a navigation suffix ("^", "~1", "~2"),
	// which the command accepts; only the general invariants are checked then
	Peel string `json:"peel,omitempty"`
}

var sub = evid.Register("refmove", run)

func TestPropRefMoves(t *testing.T) {
	rapid.Check(t, func(t *rapid.T) {
		c := Case{
			T:     syncx.GenTopology(t, evid.Scale(4, 6)),
			Op:    rapid.SampledFrom([]string{"fetch", "fetch", "push", "push", "merge", "merge", "pull", "pull-new"}).Draw(t, "op"),
			Force: rapid.IntRange(0, 4).Draw(t, "force") == 0,
			FF:    rapid.SampledFrom([]string{"", "--ff", "--no-ff", "--ff-only"}).Draw(t, "ff"),
		}
		for range c.T.Refs {
			c.RefForce = append(c.RefForce, rapid.IntRange(0, 3).Draw(t, "refforce") == 0)
			d := -1
			if rapid.IntRange(0, 3).Draw(t, "crossdst") == 0 {
				d = rapid.IntRange(0, len(c.T.Refs)-1).Draw(t, "dst")
			}
			c.PushDst = append(c.PushDst, d)
			c.Mirror = append(c.Mirror, rapid.IntRange(0, 3).Draw(t, "mirror") == 0)
		}
		if c.Op == "merge" && rapid.IntRange(0, 3).Draw(t, "peeled") == 0 {
			c.Peel = rapid.SampledFrom([]string{"^", "~1", "~2", "^^"}).Draw(t, "peel")
		}
		sub.Check(t, c)
	})
}

func TestReplay(t *testing.T) { evid.Replay(t) }

// ancestorInStore walks parent links in the store itself.
func ancestorInStore(db objects.Store, anc, of []byte) bool {
	seen := map[string]bool{}
	stack := [][]byte{of}
	for len(stack) > 0 {
		s := stack[len(stack)-1]
		stack = stack[:len(stack)-1]
		if bytes.Equal(s, anc) {
			return true
		}
		if seen[string(s)] {
			continue
		}
		seen[string(s)] = true
		c, err := objects.GetCommit(db, s)
		if err != nil {
			continue
		}
		stack = append(stack, c.Parents...)
	}
	return false
}

type expect struct {
	dst      string
	old, new []byte
	forced   bool
	src      string
}

// logged checks the log entry of a changed ref.
func logged(st *syncx.RefState, before *syncx.RefState, name string, old, new []byte) error {
	lb, la := before.Logs[name], st.Logs[name]
	if len(la) != len(lb)+1 {
		return fmt.Errorf("ref %q changed but its log has %d new entries, want 1", name, len(la)-len(lb))
	}
	e := la[0] // newest first
	if !bytes.Equal(e.Old, old) || !bytes.Equal(e.New, new) {
		return fmt.Errorf("log entry of %q records old %x new %x, the ref moved from %x to %x", name, e.Old, e.New, old, new)
	}
	return nil
}

func run(c Case) (o evid.Outcome, err error) {
	w, err := syncx.Build(c.T)
	if err != nil {
		return o, fmt.Errorf("HARNESS: %v", err)
	}
	defer w.Close()
	o.Class("op=%s", c.Op)
	isTag := func(n string) bool { return strings.HasPrefix(n, "tags/") }
	nonFF, candidates := 0, 0

	switch c.Op {
	case "fetch":
		// seed the remote-tracking refs with the local values so that old/new relations vary
		_, lrs, closeL, err := w.Repo.Open()
		if err != nil {
			return o, fmt.Errorf("HARNESS: %v", err)
		}
		for i, r := range c.T.Refs {
			if strings.HasPrefix(r.Name, "heads/") && r.L >= 0 {
				if err := ref.SaveRef(lrs, "remotes/origin/"+r.Name[6:], w.Sums[r.L], "l", "l@x", "fetch", "seed", nil); err != nil {
					closeL()
					return o, fmt.Errorf("HARNESS: %v", err)
				}
			}
			if i < len(c.Mirror) && c.Mirror[i] && r.L >= 0 && r.R >= 0 {
				if err := ref.SaveRef(lrs, fmt.Sprintf("mirror/m%d", i), w.Sums[r.L], "l", "l@x", "fetch", "seed", nil); err != nil {
					closeL()
					return o, fmt.Errorf("HARNESS: %v", err)
				}
			}
		}
		closeL()
		before, err := w.LocalRefs()
		if err != nil {
			return o, fmt.Errorf("HARNESS: %v", err)
		}
		args := []string{"fetch", "origin"}
		var exps []expect
		covered := map[string]bool{}
		for i, r := range c.T.Refs {
			if r.R < 0 {
				continue
			}
			dst := r.Name
			if strings.HasPrefix(r.Name, "heads/") {
				dst = "remotes/origin/" + r.Name[6:]
			}
			spec := fmt.Sprintf("refs/%s:refs/%s", r.Name, dst)
			if c.RefForce[i] {
				spec = "+" + spec
			}
			args = append(args, spec)
			covered[r.Name] = true
			exps = append(exps, expect{dst: dst, old: before.Refs[dst], new: w.Sums[r.R], forced: c.Force || c.RefForce[i], src: r.Name})
			if i < len(c.Mirror) && c.Mirror[i] && r.L >= 0 {
				// the same remote ref once more, onto another name, without '+'
				mdst := fmt.Sprintf("mirror/m%d", i)
				args = append(args, fmt.Sprintf("refs/%s:refs/%s", r.Name, mdst))
				exps = append(exps, expect{dst: mdst, old: before.Refs[mdst], new: w.Sums[r.R], forced: c.Force, src: r.Name})
				o.Class("two-refspecs-for-one-remote-ref")
			}
		}
		if len(exps) == 0 {
			o.Class("nothing-to-do")
			return o, nil
		}
		if c.Force {
			args = append(args, "--force")
		}
		out, cerr := w.Repo.Run(args...)
		after, err := w.LocalRefs()
		if err != nil {
			return o, fmt.Errorf("local repository unreadable after fetch: %v", err)
		}
		rejected := 0
		for _, e := range exps {
			got := after.Refs[e.dst]
			want := e.new
			switch {
			case e.old == nil || bytes.Equal(e.old, e.new):
			case isTag(e.dst):
				candidates++
				nonFF++
				if !e.forced {
					want = e.old
				}
			default:
				candidates++
				if !w.G.IsAnc(w.NodeOf(e.old), w.NodeOf(e.new)) {
					nonFF++
					if !e.forced {
						want = e.old
					}
				}
			}
			if !bytes.Equal(got, want) {
				return o, fmt.Errorf("`wrgl %s`: %q was c%d, remote has c%d (forced=%v): expected c%d afterwards, found c%d\noutput: %s", strings.Join(args, " "), e.dst, w.NodeOf(e.old), w.NodeOf(e.new), e.forced, w.NodeOf(want), w.NodeOf(got), out)
			}
			if bytes.Equal(want, e.old) && e.old != nil && !bytes.Equal(e.old, e.new) {
				rejected++
				if !strings.Contains(out, "[rejected]") {
					return o, fmt.Errorf("`wrgl %s`: update of %q was refused but not reported: %s", strings.Join(args, " "), e.dst, out)
				}
				if len(after.Logs[e.dst]) != len(before.Logs[e.dst]) {
					return o, fmt.Errorf("rejected update of %q still wrote a log entry", e.dst)
				}
			} else if !bytes.Equal(got, e.old) {
				if err := logged(after, before, e.dst, e.old, got); err != nil {
					return o, fmt.Errorf("`wrgl %s`: %v", strings.Join(args, " "), err)
				}
			}
		}
		if rejected > 0 && cerr == nil {
			return o, fmt.Errorf("`wrgl %s` refused %d updates but returned no error", strings.Join(args, " "), rejected)
		}
		if rejected == 0 && cerr != nil {
			return o, fmt.Errorf("`wrgl %s`: %v (%s)", strings.Join(args, " "), cerr, out)
		}
		// refs outside the refspecs: untouched, except that missing tags pointing at known commits
		// may be stored
		for name, v := range before.Refs {
			touched := false
			for _, e := range exps {
				if e.dst == name {
					touched = true
				}
			}
			if !touched && !bytes.Equal(after.Refs[name], v) {
				return o, fmt.Errorf("`wrgl %s` changed %q which no refspec covers", strings.Join(args, " "), name)
			}
		}
		for name, v := range after.Refs {
			if _, had := before.Refs[name]; had {
				continue
			}
			touched := false
			for _, e := range exps {
				if e.dst == name {
					touched = true
				}
			}
			if touched {
				continue
			}
			rv := -1
			for _, r := range c.T.Refs {
				if r.Name == name {
					rv = r.R
				}
			}
			if !isTag(name) || rv < 0 || !bytes.Equal(v, w.Sums[rv]) {
				return o, fmt.Errorf("`wrgl %s` created %q = c%d which no refspec covers", strings.Join(args, " "), name, w.NodeOf(v))
			}
		}
		o.NonTrivial = nonFF >= 1 && len(exps) >= 2
	case "push":
		rbefore, _ := syncx.ReadRefs(w.Server.RS)
		args := []string{"push", "origin"}
		var exps []expect
		usedDst := map[string]bool{}
		cross := 0
		for i, r := range c.T.Refs {
			if r.L < 0 {
				continue
			}
			dst := r.Name
			if i < len(c.PushDst) && c.PushDst[i] >= 0 && c.PushDst[i] < len(c.T.Refs) {
				dst = c.T.Refs[c.PushDst[i]].Name
			}
			if usedDst[dst] {
				continue // two refspecs onto one destination: outcome unspecified
			}
			usedDst[dst] = true
			if dst != r.Name {
				cross++
			}
			spec := fmt.Sprintf("refs/%s:refs/%s", r.Name, dst)
			if c.RefForce[i] {
				spec = "+" + spec
			}
			args = append(args, spec)
			exps = append(exps, expect{dst: dst, old: rbefore.Refs[dst], new: w.Sums[r.L], forced: c.Force || c.RefForce[i], src: r.Name})
		}
		if len(exps) == 0 {
			o.Class("nothing-to-do")
			return o, nil
		}
		if c.Force {
			args = append(args, "--force")
		}
		w.Server.ResetStats()
		out, cerr := w.Repo.Run(args...)
		if cerr != nil {
			return o, fmt.Errorf("`wrgl %s`: %v (%s)", strings.Join(args, " "), cerr, out)
		}
		rafter, _ := syncx.ReadRefs(w.Server.RS)
		asked := map[string]bool{}
		for _, um := range w.Server.Stats.UpdateRequests {
			for k := range um {
				asked[strings.TrimPrefix(k, "refs/")] = true
			}
		}
		for _, e := range exps {
			got := rafter.Refs[e.dst]
			want := e.new
			refused := false
			switch {
			case e.old == nil || bytes.Equal(e.old, e.new):
			case isTag(e.dst):
				candidates++
				nonFF++
				if !e.forced {
					want, refused = e.old, true
				}
			default:
				candidates++
				if !w.G.IsAnc(w.NodeOf(e.old), w.NodeOf(e.new)) {
					nonFF++
					if !e.forced {
						want, refused = e.old, true
					}
				}
			}
			if !bytes.Equal(got, want) {
				return o, fmt.Errorf("`wrgl %s`: remote %q was c%d, local has c%d (forced=%v): expected c%d afterwards, found c%d\noutput: %s", strings.Join(args, " "), e.dst, w.NodeOf(e.old), w.NodeOf(e.new), e.forced, w.NodeOf(want), w.NodeOf(got), out)
			}
			if refused {
				if !strings.Contains(out, "[rejected]") {
					return o, fmt.Errorf("`wrgl %s`: update of remote %q was refused but not reported: %s", strings.Join(args, " "), e.dst, out)
				}
				if asked[e.dst] {
					return o, fmt.Errorf("`wrgl %s`: the refused non-fast-forward update of %q was still sent to the server", strings.Join(args, " "), e.dst)
				}
			}
		}
		for name, v := range rbefore.Refs {
			touched := false
			for _, e := range exps {
				if e.dst == name {
					touched = true
				}
			}
			if !touched && !bytes.Equal(rafter.Refs[name], v) {
				return o, fmt.Errorf("`wrgl %s` changed remote %q which no refspec covers", strings.Join(args, " "), name)
			}
		}
		o.NonTrivial = nonFF >= 1 && len(exps) >= 2
		if cross > 0 {
			o.Class("push-onto-another-name")
		}
	case "pull-new":
		// pull into a branch that does not exist locally yet, through a refspec without '+', while
		// a remote-tracking ref left by an earlier fetch points somewhere else
		var br string
		ri, xi := -1, -1
		for _, r := range c.T.Refs {
			if strings.HasPrefix(r.Name, "heads/") && r.L < 0 && r.R >= 0 && br == "" {
				br, ri = r.Name[6:], r.R
			}
		}
		for j := len(c.T.Nodes) - 1; j >= 0; j-- {
			if c.T.Nodes[j].Owner != syncx.Remote {
				xi = j // the newest commit the local side has
				break
			}
		}
		for _, r := range c.T.Refs {
			// wrgl resolves NAME to any ref ending in /NAME when no branch is called NAME: then the
			// branch "does exist" for pull
			if r.L >= 0 && strings.HasSuffix(r.Name, "/"+br) && r.Name != "heads/"+br {
				br = ""
			}
		}
		if br == "" || xi < 0 {
			o.Class("nothing-to-do")
			return o, nil
		}
		_, lrs, closeL, err := w.Repo.Open()
		if err != nil {
			return o, fmt.Errorf("HARNESS: %v", err)
		}
		track := "remotes/origin/" + br
		if err := ref.SaveRef(lrs, track, w.Sums[xi], "l", "l@x", "fetch", "seed", nil); err != nil {
			closeL()
			return o, fmt.Errorf("HARNESS: %v", err)
		}
		closeL()
		before, err := w.LocalRefs()
		if err != nil {
			return o, fmt.Errorf("HARNESS: %v", err)
		}
		args := []string{"pull", br, "origin", fmt.Sprintf("refs/heads/%s:refs/%s", br, track), "-n", "1"}
		out, cerr := w.Repo.Run(args...)
		after, err := w.LocalRefs()
		if err != nil {
			return o, fmt.Errorf("local repository unreadable after %v: %v", args, err)
		}
		candidates++
		desc := fmt.Sprintf("`wrgl %s` (%s was c%d, remote branch at c%d)", strings.Join(args, " "), track, xi, ri)
		if xi != ri && !w.G.IsAnc(xi, ri) {
			nonFF++
			if !bytes.Equal(after.Refs[track], w.Sums[xi]) {
				return o, fmt.Errorf("%s: not a fast-forward and not forced, yet %s moved to c%d\noutput: %s", desc, track, w.NodeOf(after.Refs[track]), out)
			}
			if !strings.Contains(out, "[rejected]") {
				return o, fmt.Errorf("%s: the update was refused but not reported: %s", desc, out)
			}
			if len(after.Logs[track]) != len(before.Logs[track]) {
				return o, fmt.Errorf("%s: rejected update still wrote a log entry", desc)
			}
		} else if cerr == nil {
			if !bytes.Equal(after.Refs[track], w.Sums[ri]) {
				return o, fmt.Errorf("%s: fast-forward of %s expected, it is at c%d", desc, track, w.NodeOf(after.Refs[track]))
			}
		}
		for name, v := range before.Refs {
			if name != track && name != "heads/"+br && !bytes.Equal(after.Refs[name], v) && !isTag(name) {
				return o, fmt.Errorf("%s changed %q which the command does not name", desc, name)
			}
		}
		o.NonTrivial = nonFF >= 1
		o.Class("pull-into-new-branch")
		return o, nil
	case "merge", "pull":
		// pick two local branches
		var main, other string
		mi, oi := -1, -1
		for _, r := range c.T.Refs {
			if !strings.HasPrefix(r.Name, "heads/") {
				continue
			}
			if c.Op == "merge" && r.L >= 0 {
				if main == "" {
					main, mi = r.Name[6:], r.L
				} else if other == "" {
					other, oi = r.Name[6:], r.L
				}
			}
			if c.Op == "pull" && r.L >= 0 && r.R >= 0 && main == "" {
				main, mi, oi = r.Name[6:], r.L, r.R
			}
		}
		if main == "" || (c.Op == "merge" && other == "") {
			o.Class("nothing-to-do")
			return o, nil
		}
		before, err := w.LocalRefs()
		if err != nil {
			return o, fmt.Errorf("HARNESS: %v", err)
		}
		var args []string
		if c.Op == "merge" {
			args = []string{"merge", main + c.Peel, other, "-n", "1"}
		} else {
			args = []string{"pull", main, "origin", fmt.Sprintf("+refs/heads/%s:refs/remotes/origin/%s", main, main), "-n", "1"}
		}
		if c.FF != "" {
			args = append(args, c.FF)
		}
		out, cerr := runGuarded(w, args...)
		after, err := w.LocalRefs()
		if err != nil {
			return o, fmt.Errorf("local repository unreadable after %v: %v", args, err)
		}
		ldb, _, closeL, err := w.Repo.Open()
		if err != nil {
			return o, fmt.Errorf("HARNESS: %v", err)
		}
		defer closeL()
		old := before.Refs["heads/"+main]
		got := after.Refs["heads/"+main]
		otherSum := w.Sums[oi]
		mainAnc := w.G.IsAnc(mi, oi) // main is an ancestor of (or equal to) the other commit
		otherAnc := w.G.IsAnc(oi, mi)
		common := false
		am, ao := w.G.Anc(mi), w.G.Anc(oi)
		for k := range am {
			if ao[k] {
				common = true
			}
		}
		candidates++
		desc := fmt.Sprintf("`wrgl %s` (main=c%d other=c%d)", strings.Join(args, " "), mi, oi)
		switch {
		case c.Peel != "":
			// "BRANCH^" as the branch to merge into: what the command makes of it is its business
			// (rejecting it would be the obvious answer); the invariants below apply whatever it does
			o.Class("peeled-branch-argument")
			if cerr != nil {
				o.Class("command-failed")
			}
		case mi == oi || otherAnc:
			// nothing to merge: the branch keeps its value
			// (with --no-ff wrgl records a merge commit on top of the branch even then; the statement
			// only requires that the branch does not leave its own history, which is checked below)
			if !bytes.Equal(got, old) && c.FF != "--no-ff" {
				return o, fmt.Errorf("%s: the other commit is already contained in the branch, yet the branch moved to c%d", desc, w.NodeOf(got))
			}
		case mainAnc:
			// fast-forward situation
			switch c.FF {
			case "--no-ff":
				if cerr != nil {
					return o, fmt.Errorf("%s: %v (%s)", desc, cerr, out)
				}
				nc, err := objects.GetCommit(ldb, got)
				if err != nil || bytes.Equal(got, old) || bytes.Equal(got, otherSum) {
					return o, fmt.Errorf("%s: --no-ff must create a merge commit; branch is at c%d (%v)", desc, w.NodeOf(got), err)
				}
				if len(nc.Parents) != 2 || !bytes.Equal(nc.Parents[0], old) || !bytes.Equal(nc.Parents[1], otherSum) {
					return o, fmt.Errorf("%s: merge commit has parents %x, want [%x %x]", desc, nc.Parents, old, otherSum)
				}
			default:
				if cerr != nil {
					return o, fmt.Errorf("%s: a fast-forward is possible but the command failed: %v (%s)", desc, cerr, out)
				}
				if !bytes.Equal(got, otherSum) {
					return o, fmt.Errorf("%s: a fast-forward merge must move the branch exactly to the other commit c%d, it is at c%d (a commit with %d parents)", desc, oi, w.NodeOf(got), parents(ldb, got))
				}
			}
			if err := logged(after, before, "heads/"+main, old, got); err != nil {
				return o, fmt.Errorf("%s: %v", desc, err)
			}
		default:
			nonFF++
			// diverged or unrelated
			if c.FF == "--ff-only" || !common {
				if cerr == nil {
					return o, fmt.Errorf("%s: histories diverge (common ancestor: %v) but the command succeeded: %s", desc, common, out)
				}
				if !bytes.Equal(got, old) {
					return o, fmt.Errorf("%s: rejected, yet the branch moved from c%d to c%d", desc, mi, w.NodeOf(got))
				}
			} else if !bytes.Equal(got, old) {
				// a real merge happened (no conflicts): the new head must descend from both
				nc, err := objects.GetCommit(ldb, got)
				if err != nil {
					return o, fmt.Errorf("%s: branch points at an unreadable commit", desc)
				}
				if len(nc.Parents) != 2 || !bytes.Equal(nc.Parents[0], old) || !bytes.Equal(nc.Parents[1], otherSum) {
					return o, fmt.Errorf("%s: merge commit has parents %x, want [%x %x]", desc, nc.Parents, old, otherSum)
				}
				if err := logged(after, before, "heads/"+main, old, got); err != nil {
					return o, fmt.Errorf("%s: %v", desc, err)
				}
			}
		}
		// whatever happened: without force a branch only moves forward along its own history
		for name, v := range after.Refs {
			ov, had := before.Refs[name]
			if !had || bytes.Equal(ov, v) || !strings.HasPrefix(name, "heads/") {
				continue
			}
			if !ancestorInStore(ldb, ov, v) {
				return o, fmt.Errorf("%s: branch %q moved from c%d to c%d, a commit that does not descend from it (command error: %v)", desc, name, w.NodeOf(ov), w.NodeOf(v), cerr)
			}
			if err := logged(after, before, name, ov, v); err != nil {
				return o, fmt.Errorf("%s: %v", desc, err)
			}
		}
		if c.Op == "merge" {
			for name, v := range before.Refs {
				if name != "heads/"+main && !bytes.Equal(after.Refs[name], v) {
					return o, fmt.Errorf("%s changed %q", desc, name)
				}
			}
		}
		o.Class("ff=%s", c.FF)
		o.NonTrivial = mi != oi
		if mainAnc && mi != oi {
			o.Class("fast-forward-possible")
		}
	}
	if nonFF > 0 {
		o.Class("non-fast-forward-candidate")
	}
	if c.Force {
		o.Class("global-force")
	}
	return o, nil
}

func parents(db objects.Store, sum []byte) int {
	c, err := objects.GetCommit(db, sum)
	if err != nil {
		return -1
	}
	return len(c.Parents)
}

// runGuarded turns a panic of the command into an error (a crash is not C10's subject; the state
// it leaves behind is).
func runGuarded(w *syncx.World, args ...string) (out string, err error) {
	defer func() {
		if r := recover(); r != nil {
			err = fmt.Errorf("command panicked: %v", r)
		}
	}()
	return w.Repo.Run(args...)
}
